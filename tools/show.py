import json,sys
r=json.load(open(sys.argv[1]))
n=int(sys.argv[2]) if len(sys.argv)>2 else 6
for f in r['families']:
    s=f['stats']; print(f['name'], 'eval',s['evaluations'], 'nontriv',s['nontrivial'], 'viol',s['violation_count'], s['by_signature'], s['counters'], 'undecided',s['undecided_count'])
    for v in s['violations'][:n]: print('  ',v['signature'], json.dumps(v['case'])[:400], '\n      ', v['detail'][:500])
    for u in s['undecided'][:3]: print('  UNDECIDED', json.dumps(u)[:300])
