#!/bin/bash
# Mutant testing in a scratch copy (so that /repo and /verif stay usable meanwhile).
#   mt.sh setup                      (re)create /tmp/mt/{repo,verif} from /repo HEAD and the /verif working tree
#   mt.sh run <seed-dir-name> <ID>.. apply /verif/seeded/<name>/patch.diff in the scratch repo, run the checks, undo
set -u
MT=${MT:-/tmp/mt}
case "$1" in
setup)
  mkdir -p $MT
  if [ -d $MT/repo ]; then git -C /repo worktree remove --force $MT/repo 2>/dev/null; rm -rf $MT/repo; fi
  git -C /repo worktree prune
  git -C /repo worktree add --detach $MT/repo HEAD -q || exit 2
  rsync -a --delete --exclude target --exclude work --exclude .git --exclude replays --exclude evidence /verif/ $MT/verif/
  sed -i "s#/repo/#$MT/repo/#g" $MT/verif/harness/Cargo.toml
  sed -i "s#/verif/target#$MT/verif/target#" $MT/verif/harness/.cargo/config.toml
  echo "scratch ready at $MT"
  ;;
sync)
  (cd $MT/repo && git checkout -q -- . && git clean -fdq && git checkout -q --detach $(git -C /repo rev-parse HEAD))
  rsync -a --delete --exclude target --exclude work --exclude .git --exclude replays --exclude evidence /verif/ $MT/verif/
  sed -i "s#/repo/#$MT/repo/#g" $MT/verif/harness/Cargo.toml
  sed -i "s#/verif/target#$MT/verif/target#" $MT/verif/harness/.cargo/config.toml
  ;;
run)
  name=$2; shift 2
  cd $MT/repo && git checkout -q -- . && git clean -fdq
  git apply /verif/seeded/$name/patch.diff || { echo "$name: patch does not apply"; exit 2; }
  for id in "$@"; do
    out=$(cd $MT/verif && VERIF_REPO=$MT/repo ./check $id --tier ${TIER:-quick} 2>&1); rc=$?
    nv=$(echo "$out" | grep -c '^VIOLATION')
    sig=$(echo "$out" | grep -m2 'signature:' | tr '\n' ' ' | cut -c1-160)
    echo "$name $id exit=$rc violations=$nv $sig"
    if [ $rc -eq 2 ]; then echo "$out" | tail -5; fi
  done
  cd $MT/repo && git checkout -q -- . && git clean -fdq
  ;;
esac
