#!/bin/bash
# run_mutants.sh [names...] : for each own mutant (mutants/<name>.diff): apply in the scratch repo, run the repository's
# suite, run the check of its property (quick), undo. Results: work/mutants.log
MT=/tmp/mt
cd /verif/mutants
names=${@:-$(ls *.diff | sed 's/.diff//')}
for name in $names; do
  prop=$(head -1 /verif/mutants/$name.txt)
  cd $MT/repo && git checkout -q -- . && git clean -fdq
  git apply /verif/mutants/$name.diff || { echo "$name: patch does not apply"; continue; }
  suite=$(CARGO_TARGET_DIR=$MT/repo/target cargo nextest run --workspace --no-fail-fast --test-threads 8 --offline 2>&1 | grep -E "^\s+Summary" | sed 's/.*Summary[^]]*\] *//')
  out=$(cd $MT/verif && VERIF_REPO=$MT/repo ./check $prop --tier quick 2>&1); rc=$?
  nv=$(echo "$out" | grep -c '^VIOLATION')
  sig=$(echo "$out" | grep -m1 'signature:' | cut -c1-120)
  echo "$name $prop exit=$rc violations=$nv suite=[$suite] $sig"
  cd $MT/repo && git checkout -q -- . && git clean -fdq
done
