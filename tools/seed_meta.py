#!/usr/bin/env python3
"""Write /verif/seeded/<id>/meta.json from the descriptions below and the detection results recorded by
tools/detect_seeded.sh (work/detect/<id>.txt)."""
import json, os, glob

D = {
 "C01-1": ("C01", "multiline_strings.rs: interior lines shorter than the closing indentation are skipped even when they hold text -> characters dropped",
           "format_multiline_strings on; a ''' literal with indented closing quotes and a non-blank interior line shorter than that indentation (invalid for the compiler, so never in ordinary code)"),
 "C01-2": ("C01", "lexer.rs count_leading_whitespace: matches only the first two UTF-8 bytes of U+3000, so U+3001..U+303F are swallowed as blanks",
           "a token starting with a character whose UTF-8 encoding is E3 80 xx other than U+3000"),
 "C02-1": ("C02", "multiline_strings.rs: blank-only interior line longer than the closing indentation loses its extra blanks (value changes)",
           "valid ''' literal with a blank-only line extending past the closing-quote indentation"),
 "C02-2": ("C02", "multiline_strings.rs lines_custom: skip-LF flag not reset after a lone CR, next LF no longer ends a line",
           "literal with a CR-terminated line followed by a non-empty LF-terminated line, and an indentation that changes"),
 "C03-1": ("C03", "front-end make_formatter: CommentFormatter registered after the line wrapper, so comment lengths change after wrapping was decided",
           "a trailing //comment without blank after the slashes (or with trailing blanks) on a statement within a column of wrap_column"),
 "C03-2": ("C03", "multiline_strings.rs: blank-only interior lines longer than the indentation come out without indentation; shrink again on every pass",
           "''' literal with a blank-only interior line longer than the closing-quote indentation, soft tabs"),
 "C04-1": ("C04", "parser.rs parse_property_declaration: bracket-level test moved into the arm body; directive word inside brackets is never consumed -> infinite loop",
           "property declaration with read/write/index/default/stored inside [ ] not directly after the name, e.g. `property : [ read`"),
 "C04-2": ("C04", "multiline_strings.rs: closing line found with rsplit_once('\\n').unwrap() -> panic when the literal has only lone-CR line breaks",
           "''' literal whose line breaks are all lone CR, format_multiline_strings on"),
 "C05-1": ("C05", "optimising_line_formatter find_optimal_child_lines_solution: with always_wrap the `else begin` case falls through to the generic else case and loses the one-level de-indent",
           "begin_style=always_wrap and an else branch that is a begin..end block"),
 "C05-2": ("C05", "find_optimal_child_lines_solution: prunes options whose parent line is over the limit unless they are BreakAll; `else if` / `else begin` (auto) / empty case arm have no BreakAll option -> No solution found",
           "indentation of the else + 4 > wrap_column (deep nesting or a narrow wrap_column)"),
 "C11-1": ("C11", "front-end make_formatter: CommentFormatter registered after the line wrapper; comments are measured before they are normalised",
           "a trailing line comment not in normal form (no blank after //, or trailing blanks) on wrappable code with wrap_column within a column or two of the line length"),
 "C11-2": ("C11", "multiline_strings.rs: `changed` flag overwritten per literal instead of accumulated; the re-flow is skipped when the last literal of a line is already in place",
           "two or more multi-line literals in one logical line, the last already normalised and an earlier one not"),
 "C06-1": ("C06", "token_spacing.rs: ')' / ']' no longer fix the gap after them; `)(`, `][`, `)[` keep the input's blank count / next-line indentation",
           "postfix chain a[i][j], f(x)[0], f(x)(y) with blanks or a line break in exactly that gap"),
 "C06-2": ("C06", "parser.rs finish_logical_line: line type not reset on an empty line; `end ;` after an asm block inherits AsmInstruction and is emitted verbatim",
           "asm block whose last instruction ends in ';' or an empty asm block, plus a re-layout of the closing `end ;`"),
 "C07-1": ("C07", "formatting_toggle.rs: on/off word matched case-sensitively",
           "toggle comment whose on/off word has an upper-case letter"),
 "C07-2": ("C07", "formatter.rs: whole-file fast path when token 0 and EOF are both ignored; code between two regions is not formatted",
           "file starts with a pasfmt off comment, a pasfmt on follows, and a later pasfmt off runs to the end of the file"),
 "C08-1": ("C08", "lexer.rs count_leading_whitespace: stops after a run of U+3000, ASCII blanks after it become Unknown tokens made of blanks",
           "U+3000 between tokens immediately followed by an ASCII blank or newline"),
 "C08-2": ("C08", "optimising_line_formatter reconstruct_solution: Continue decision keeps indentations_before; stale indentation printed mid-line after a re-flow",
           "format_multiline_strings on, statement at level >= 1, multi-line string indented so deeply that the tail wraps on the first pass and fits after re-indentation"),
 "C12-1": ("C12", "multiline_strings.rs lines_custom rewritten: CR flag cleared only when an LF is consumed; after a lone CR the next bare LF is swallowed",
           "literal with a lone-CR line, then a bare-LF line, closing line ended by LF/CRLF, indentation changes"),
 "C12-2": ("C12", "multiline_strings.rs: `!stripped_line.trim_end().is_empty()`: blank-only interior line longer than the indentation loses its blanks",
           "blank-only interior line longer than the closing quotes' indentation"),
 "C13-1": ("C13", "lexer.rs find_identifier_end_avx2: non-ASCII kept on the vector path, U+3000 treated as identifier char",
           "AVX2 CPU; identifier directly followed by U+3000 with >= 32 bytes of input left from the chunk start"),
 "C13-2": ("C13", "lexer.rs: prev_real_token replaced by an after_dot flag that only identifier_or_keyword consumes; stays set after `._x`, `.&x`, `.1`",
           "a '.' followed by a token that is not an ASCII word, then later a keyword"),
 "C15-1": ("C15", "reconstructor.rs process_cursors: lines() instead of split('\\n') in multi-line tokens; reverse_col one short per CRLF line",
           "multi-line comment / untouched ''' string with CRLF line breaks and a cursor on a line other than the token's last"),
 "C15-2": ("C15", "reconstructor.rs ws_len: is_ignored() branch removed; whitespace of ignored tokens measured as if formatted",
           "pasfmt off region or asm block containing a whitespace-only line with blanks, or CRLF while line_ending=lf"),
 "C16-1": ("C16", "file_formatter.rs check_stdin reads stdin as UTF-8 text, ignoring BOM and configured encoding",
           "--mode=check on stdin with a UTF-16 BOM or a non-UTF-8 configured encoding plus a non-ASCII character"),
 "C16-2": ("C16", "file_formatter.rs exec_format: read buffer cleared at the end instead of the top; a decode failure leaves bytes for the next file of the worker",
           "multi-file run with an undecodable file followed by a decodable one on the same worker"),
 "C09-1": ("C09", "lexer.rs text_literal: memchr3 -> memchr2, a CR no longer ends an unterminated literal; the CR is swallowed into the token",
           "CRLF (or mixed) input with a quote-delimited literal left unclosed at the end of a line"),
 "C09-2": ("C09", "multiline_strings.rs: early `continue` when the literal already has its target indentation; terminators are then not normalised",
           "a multi-line string already at its target indentation whose interior line endings differ from the configured line_ending"),
 "C10-1": ("C10", "multiline_strings.rs: 'already in place' fast path compares byte lengths of old and new indentation instead of their text",
           "multi-line literal with aligned quotes whose old indentation has as many bytes as the new one but other characters (N spaces vs N tabs)"),
 "C10-2": ("C10", "front-end lib.rs: continuation width computed with a plain u8 multiplication instead of saturating_mul",
           "use_tabs=false, tab_width x continuation_indents >= 256 and at least one continuation line"),
 "C14-1": ("C14", "parser.rs parse_file: end-directive arm guarded by directive_level > 0; an unmatched {$endif} gets no directive line",
           "an unbalanced {$endif} / {$ifend}"),
 "C14-2": ("C14", "parser.rs skip_token also steps over trailing inline comments without adding them to a line",
           "a compiler directive strictly between conditional directives followed by a same-line comment"),
 "C17-1": ("C17", "file_formatter.rs decode_file: ASCII fast path borrows the payload as str; ISO-2022-JP (all ASCII bytes plus escapes) bypasses the decoder",
           "encoding=ISO-2022-JP and at least one non-ASCII character"),
 "C17-2": ("C17", "file_formatter.rs: hand-rolled UTF-16 decoder with chunks_exact(2) silently drops a trailing odd byte",
           "UTF-16 (by BOM) input with an odd number of payload bytes"),
 "C19-1": ("C19", "command_line.rs find_config_file: ancestors().filter(is_file).last() picks the farthest pasfmt.toml",
           "two pasfmt.toml files in the ancestor chain that differ, no --config-file"),
 "C19-2": ("C19", "command_line.rs: TOML format hint dropped; --config-file with a non-.toml name is rejected",
           "--config-file pointing at a regular file whose extension is not toml"),
 "C18-1": ("C18", "file_formatter.rs exec_format: input_buf reset only on the success path (clear + shrink after result_operation)",
           "a file that fails after bytes were read (undecodable), followed by another file on the same worker"),
 "C18-2": ("C18", "file_formatter.rs expand_paths: de-duplicates paths case-insensitively",
           "case-sensitive file system and two files whose paths differ only in letter case in one invocation"),
}

root = os.path.join(os.path.dirname(os.path.abspath(__file__)), "..", "seeded")
for d in sorted(glob.glob(os.path.join(root, "*-*"))):
    name = os.path.basename(d)
    if not os.path.isdir(d):
        continue
    prop, what, needs = D.get(name, (name.split("-")[0], "see notes", "see notes"))
    det = os.path.join(root, "detect", name + ".txt")
    ran = []
    if os.path.exists(os.path.join(d, "verify.log")):
        ran.append("tools/verify_seed.sh in the sub-agent's scratch worktree: demo passes on the clean tree, patch applies, "
                   "`cargo nextest run --workspace` 3212 passed with the patch, demo fails with the patch (verify.log)")
    detected = None
    if os.path.exists(det):
        lines = open(det).read().strip().splitlines()
        ran.append("git -C /repo apply patch.diff; ./check <ID> --tier quick; git -C /repo checkout -- .  ->  " + " | ".join(lines))
        detected = [l.split()[1] for l in lines if "exit=1" in l]
    meta = {"property": prop, "change": what, "needs_to_manifest": needs, "what_was_run": ran,
            "detected_by_quick_checks": detected,
            "source": "independent sub-agent given only the property text and a scratch worktree"}
    json.dump(meta, open(os.path.join(d, "meta.json"), "w"), indent=1)
    print(name, detected)
