#!/usr/bin/env python3
"""Print the markdown table of seeded changes / own mutants and the checks that catch them (for DESIGN.md 11.5)."""
import json, glob, os, re
root = os.path.join(os.path.dirname(os.path.abspath(__file__)), "..")
print("| change | property | what it does | needs | caught by (quick tier) |")
print("|---|---|---|---|---|")
for d in sorted(glob.glob(os.path.join(root, "seeded", "*-*"))):
    if not os.path.isdir(d):
        continue
    m = json.load(open(os.path.join(d, "meta.json")))
    name = os.path.basename(d)
    det = m.get("detected_by_quick_checks")
    sigs = []
    f = os.path.join(root, "seeded", "detect", name + ".txt")
    if os.path.exists(f):
        for l in open(f):
            mm = re.search(r"check (\S+) exit=(\d+) violations=(\d+)\s*(signature: (.*))?", l)
            if mm and mm.group(2) == "1":
                sigs.append(f"{mm.group(1)} ({(mm.group(5) or '').strip()})")
            elif mm:
                sigs.append(f"{mm.group(1)}: not caught (exit {mm.group(2)})")
    print(f"| seeded/{name} | {m['property']} | {m['change']} | {m['needs_to_manifest']} | {'; '.join(sigs) if sigs else det} |")
log = os.path.join(root, "mutants", "results.txt")
if os.path.exists(log):
    for l in open(log):
        p = l.split()
        if l.startswith('#') or len(p) < 4:
            continue
        name, prop = p[0], p[1]
        desc = open(os.path.join(root, "mutants", name + ".txt")).read().splitlines()[1]
        rc = re.search(r"exit=(\d+)", l).group(1)
        suite = re.search(r"suite=\[(.*?)\]", l).group(1)
        sig = (re.search(r"signature: (.*)", l) or [None, ""])[1]
        print(f"| mutants/{name} | {prop} | {desc} | (own mutant; repository suite: {suite}) | {prop + ' (' + sig.strip() + ')' if rc == '1' else 'not caught (exit ' + rc + ')'} |")
