#!/bin/bash
# verify_seed.sh <worktree> <n> <property> : confirm a sub-agent's change <n> (compiles, suite passes,
# demo fails with it and passes without) and store it under /verif/seeded/<property>-<n>/
set -u
WT=$1; N=$2; PROP=$3
OUT=/verif/seeded/$PROP-${SUFFIX:-}$N
export CARGO_TARGET_DIR=$WT/target CARGO_NET_OFFLINE=true
cd $WT || exit 2
git checkout -q -- . || exit 2
log=$WT/_out/verify$N.log; : > $log
echo "== demo on clean tree" >> $log
cargo build --release --offline -p pasfmt >> $log 2>&1
bash _out/demo$N.sh >> $log 2>&1; clean_rc=$?
git checkout -q -- .
git apply _out/change$N.diff || { echo "patch does not apply" >> $log; echo "$PROP-$N: PATCH-FAIL"; exit 1; }
echo "== suite with change" >> $log
cargo nextest run --workspace --no-fail-fast --test-threads 8 --offline 2>&1 | tail -3 >> $log
suite=$(grep -c "3212 passed" $log)
echo "== demo with change" >> $log
cargo build --release --offline -p pasfmt >> $log 2>&1
bash _out/demo$N.sh >> $log 2>&1; mut_rc=$?
git checkout -q -- .
git clean -fdq -e _out -e target . 2>/dev/null
applies=$(git -C /repo apply --check $WT/_out/change$N.diff 2>&1 | wc -l)
echo "$PROP-$N: clean_rc=$clean_rc suite_ok=$suite mut_rc=$mut_rc applies_to_repo_head=$((applies==0))"
if [ $clean_rc -eq 0 ] && [ $suite -ge 1 ] && [ $mut_rc -ne 0 ] && [ $applies -eq 0 ]; then
  mkdir -p $OUT
  cp _out/change$N.diff $OUT/patch.diff
  for f in _out/*; do case $(basename $f) in change*.diff|verify*.log|demo[0-9].sh) ;; *) [ -f $f ] && cp $f $OUT/ ;; esac; done
  cp _out/demo$N.sh $OUT/demo.sh
  cp $log $OUT/verify.log
  echo "$PROP-$N: KEPT in $OUT"
else
  echo "$PROP-$N: REJECTED (see $log)"
fi
