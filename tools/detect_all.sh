#!/bin/bash
# official detection pass over all seeded changes: each one against the check of its own property
# (plus extra checks given in EXTRA), on /repo itself
cd /verif
declare -A EXTRA=( [C16-2]="C18" [C10-1]="C12" [C17-r2-1]="C16 C18" [C10-r2-2]="C12" [C03-r3-2]="C16 C18" [C01-r3-1]="C17" [C01-r3-2]="C16" [C16-r3-2]="C18" [C18-r3-1]="C03" [C12-r3-2]="C10" [C06-r4-2]="C16" [C04-r4-1]="C13" [C08-r4-2]="C07" [C01-r4-2]="C16 C17" [C17-r4-1]="C16" [C01-r4-1]="C13" [C06-r5-2]="C05" [C17-r5-1]="C16" [C01-r5-1]="C16" [C16-r5-2]="C18" [C11-r5-2]="C05" [C09-r6-1]="C12" )
ONLY=${1:-}
for d in seeded/*-*/; do
  name=$(basename $d)
  if [ -n "$ONLY" ] && [[ "$name" != *$ONLY* ]]; then continue; fi
  prop=${name%%-*}
  tools/detect_seeded.sh $name $prop ${EXTRA[$name]:-} 2>&1 | sed "s/^/$name: /"
done
