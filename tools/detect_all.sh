#!/bin/bash
# official detection pass over all seeded changes: each one against the check of its own property
# (plus extra checks given in EXTRA), on /repo itself
cd /verif
declare -A EXTRA=( [C16-2]="C18" [C10-1]="C12" )
for d in seeded/*-*/; do
  name=$(basename $d)
  prop=${name%-*}
  tools/detect_seeded.sh $name $prop ${EXTRA[$name]:-} 2>&1 | sed "s/^/$name: /"
done
