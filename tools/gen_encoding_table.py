#!/usr/bin/env python3
"""Freeze corpus/encodings.json: for every encoding label the `encoding` option accepts, a few
non-ASCII characters on which Python's codec and the WHATWG encoding agree, and a few byte strings
that are malformed in that encoding. Generated once on the pinned tree (binary and Python must
agree on a character for it to be kept); at check time the table is the independent oracle."""
import json, os, subprocess, sys
sys.path.insert(0, os.path.join(os.path.dirname(os.path.abspath(__file__)), "..", "pylib"))
import common
CLI = common.CLI
EMPTY = os.path.join(common.WORK, "empty-gen.toml")
os.makedirs(common.WORK, exist_ok=True)
open(EMPTY, "w").close()

# encoding_rs canonical name -> python codec (None = handled by hand)
ENCODINGS = {
    "UTF-8": "utf-8", "IBM866": "cp866", "ISO-8859-2": "iso8859_2", "ISO-8859-3": "iso8859_3",
    "ISO-8859-4": "iso8859_4", "ISO-8859-5": "iso8859_5", "ISO-8859-6": "iso8859_6", "ISO-8859-7": "iso8859_7",
    "ISO-8859-8": "iso8859_8", "ISO-8859-8-I": "iso8859_8", "ISO-8859-10": "iso8859_10", "ISO-8859-13": "iso8859_13",
    "ISO-8859-14": "iso8859_14", "ISO-8859-15": "iso8859_15", "ISO-8859-16": "iso8859_16", "KOI8-R": "koi8_r",
    "KOI8-U": "koi8_u", "macintosh": "mac_roman", "windows-874": "cp874", "windows-1250": "cp1250",
    "windows-1251": "cp1251", "windows-1252": "cp1252", "windows-1253": "cp1253", "windows-1254": "cp1254",
    "windows-1255": "cp1255", "windows-1256": "cp1256", "windows-1257": "cp1257", "windows-1258": "cp1258",
    "x-mac-cyrillic": "mac_cyrillic", "GBK": "gbk", "gb18030": "gb18030", "Big5": "big5", "EUC-JP": "euc_jp",
    "ISO-2022-JP": "iso2022_jp", "Shift_JIS": "shift_jis", "EUC-KR": "cp949", "UTF-16BE": "utf-16-be",
    "UTF-16LE": "utf-16-le", "x-user-defined": None, "replacement": None,
}
MULTI = "中文字日本語かなカナ한국어éßЖяあ"


def run(args, data):
    r = subprocess.run([CLI, "--config-file", EMPTY] + args, input=data, stdout=subprocess.PIPE, stderr=subprocess.PIPE)
    return r.returncode, r.stdout


def main():
    common.build(need_cli=True)
    table = {}
    for label, codec in ENCODINGS.items():
        entry = {"label": label, "codec": codec, "chars": [], "malformed": []}
        if label in ("UTF-16BE", "UTF-16LE"):
            # only reachable through a BOM (the option itself cannot encode UTF-16 input without one)
            entry["chars"] = list("é日😀")
            entry["malformed"] = ["61", "3dd8" if label == "UTF-16LE" else "d83d"]  # odd length; lone surrogate
            table[label] = entry
            continue
        if codec is None:
            table[label] = entry
            continue
        cands = []
        if codec in ("utf-8",):
            cands = list("é日😀ÿ")
        elif codec in ("gbk", "gb18030", "big5", "euc_jp", "iso2022_jp", "shift_jis", "cp949"):
            cands = list(MULTI)
        else:
            for b in range(0xC0, 0x100):
                try:
                    cands.append(bytes([b]).decode(codec))
                except UnicodeDecodeError:
                    pass
        for ch in cands:
            try:
                enc = ch.encode(codec)
                if enc.decode(codec) != ch:
                    continue
            except UnicodeError:
                continue
            if not ch.isalpha():
                continue
            # the pinned binary must read these bytes as this character and write them back
            src = b"a  :=  '" + enc + b"' ;  //" + enc + b"\n"
            rc, out = run(["-Cencoding=" + label], src)
            text = "a := '" + ch + "'; // " + ch + "\n"
            try:
                want = text.encode(codec)
            except UnicodeError:
                continue
            if rc == 0 and out == want:
                entry["chars"].append(ch)
            if len(entry["chars"]) >= 4:
                break
        # malformed byte strings: python rejects them and so does the pinned binary
        for hx in ["ff", "80", "81", "c3", "e4b8", "8130", "fd", "a1", "1b2440", "f0", "fe", "8e", "aa", "d2", "db"]:
            b = bytes.fromhex(hx)
            try:
                b.decode(codec)
                continue
            except UnicodeDecodeError:
                pass
            rc, out = run(["-Cencoding=" + label], b"a ; //" + b + b"\n")
            if rc != 0:
                entry["malformed"].append(hx)
            if len(entry["malformed"]) >= 3:
                break
        table[label] = entry
    os.makedirs(os.path.join(common.ROOT, "corpus"), exist_ok=True)
    json.dump(table, open(os.path.join(common.ROOT, "corpus", "encodings.json"), "w"), indent=1, ensure_ascii=False)
    for k, v in table.items():
        print(k, v["codec"], "".join(v["chars"]), v["malformed"])


if __name__ == "__main__":
    main()
