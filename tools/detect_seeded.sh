#!/bin/bash
# detect_seeded.sh <seed-name> <ID>... : the official detection run on /repo itself:
#   git -C /repo apply seeded/<name>/patch.diff ; ./check <ID> --tier quick ... ; git -C /repo checkout -- .
# writes seeded/detect/<name>.txt (one line per check). /repo must be clean and no other run may be using it.
set -u
name=$1; shift
cd /verif
[ -z "$(git -C /repo status --porcelain)" ] || { echo "/repo is not clean"; exit 2; }
git -C /repo apply /verif/seeded/$name/patch.diff || { echo "patch does not apply"; exit 2; }
mkdir -p seeded/detect; : > seeded/detect/$name.txt
for id in "$@"; do
  out=$(./check $id --tier quick 2>&1); rc=$?
  nv=$(echo "$out" | grep -c '^VIOLATION')
  sig=$(echo "$out" | grep -m1 'signature:' | sed 's/^ *//' | cut -c1-140)
  echo "check $id exit=$rc violations=$nv $sig" | tee -a seeded/detect/$name.txt
done
git -C /repo checkout -- .
git -C /repo clean -fdq
[ -z "$(git -C /repo status --porcelain)" ] || echo "WARNING: /repo not clean after undo"
