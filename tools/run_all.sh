#!/bin/bash
# run_all.sh <tier> [ids...] : run the checks one after the other, print one summary line each
tier=${1:-quick}; shift
ids=${@:-C01 C02 C03 C04 C05 C06 C07 C08 C09 C10 C11 C12 C13 C14 C15 C16 C17 C18 C19}
cd "$(dirname "$0")/.."
for id in $ids; do
  start=$(date +%s)
  out=$(./check $id --tier $tier 2>&1); rc=$?
  echo "== $id tier=$tier exit=$rc wall=$(( $(date +%s) - start ))s"
  echo "$out" | grep -E "VIOLATION|KNOWN-FINDING|MACHINERY|FLAKY|signature:|detail:|family|ABORTED" | cut -c1-400
done
