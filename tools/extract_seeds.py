#!/usr/bin/env python3
"""Freeze the programs of the repository's data tests into corpus/seeds.jsonl.
Run once at the pinned commit (the generated/ directory is produced by the datatests' build.rs)."""
import os, re, json, sys
GEN = '/repo/core/datatests/generated'
out = []
def trim_string(s):
    lines = s.split('\n')
    # mirrors tests/suites/optimising_line_formatter.rs::trim_string
    ls = s.splitlines()
    if not ls or ls[0] != '':
        return s
    first = next((l for l in ls if l.strip()), ls[0] if ls else '')
    lead = first[:len(first) - len(first.lstrip())]
    res = []
    for l in ls[1:]:
        if l.startswith(lead):
            res.append(l[len(lead):])
        elif l.strip() == '':
            res.append(l.strip())
        else:
            return None
    return '\n'.join(res)
for root, _, files in os.walk(os.path.join(GEN, 'optimising_line_formatter')):
    for f in sorted(files):
        p = os.path.join(root, f)
        name = os.path.relpath(p, GEN)
        text = open(p, encoding='utf-8').read()
        parts = re.split(r'\n[ \t]*!#+!.*?(?=\n)', text)
        inp = trim_string(parts[0])
        if inp is None: continue
        out.append({'name': name, 'kind': 'olf_in', 'text': inp})
        if len(parts) > 1:
            o = trim_string(parts[1])
            if o is not None and o != inp:
                out.append({'name': name, 'kind': 'olf_out', 'text': o})
for root, _, files in os.walk(os.path.join(GEN, 'logical_line_test')):
    for f in sorted(files):
        p = os.path.join(root, f)
        name = os.path.relpath(p, GEN)
        lines = [l.strip() for l in open(p, encoding='utf-8').read().splitlines()]
        lines = [l for l in lines if l]
        body = []
        for l in lines:
            if l == '---': break
            if '|' in l:
                body.append(l.split('|', 1)[1])
            else:
                body.append(l)
        text = '\n'.join(body)
        text = re.sub(r'\{\d+\}', '', text)
        out.append({'name': name, 'kind': 'llp', 'text': text})
seen = set(); uniq = []
for o in out:
    if o['text'] in seen: continue
    seen.add(o['text']); uniq.append(o)
os.makedirs('/verif/corpus', exist_ok=True)
with open('/verif/corpus/seeds.jsonl', 'w') as fh:
    for o in uniq: fh.write(json.dumps(o) + '\n')
print(len(out), 'programs,', len(uniq), 'distinct')
