#!/usr/bin/env python3-vt
"""Validate MANIFEST.json and every evidence file against the schemas in /root/.vp."""
import json, glob, sys, jsonschema
ok = True
def v(path, schema):
    global ok
    try:
        jsonschema.validate(json.load(open(path)), json.load(open(schema)))
        print("ok  ", path)
    except Exception as e:
        ok = False
        print("FAIL", path, str(e)[:300])
v('/verif/MANIFEST.json', '/root/.vp/MANIFEST.schema.json')
for f in sorted(glob.glob('/verif/evidence/*.json')):
    v(f, '/root/.vp/EVIDENCE.schema.json')
m = json.load(open('/verif/MANIFEST.json'))
ids = {json.loads(l)['id'] for l in open('/verif/properties.jsonl')}
claimed = {c['property_id'] for c in m['checks']}
na = {n['property_id'] for n in m.get('not_applicable', [])}
if claimed | na != ids or claimed & na:
    ok = False
    print("FAIL claimed/not_applicable do not partition the properties", sorted(ids - claimed - na), sorted(claimed & na))
sys.exit(0 if ok else 1)
