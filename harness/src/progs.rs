//! Families over well-formed programs: grammar derivations (bounded deviations) and the frozen
//! seed corpus, with the layout / comment / directive transformers applied inside each case.
use crate::cfg::Cfg;
use crate::grammar::{GTok, Grammar};
use crate::layout::{self, Base};
use crate::oracles as o;
use crate::oracles2 as o2;
use crate::refscan::{self as r, Kind, Tok};
use crate::runner::{Ctx, Family};
use serde_json::{json, Value};
use std::sync::Arc;

pub type ProgFn = Box<dyn Fn(&Grammar, &[GTok], &Cfg, &mut Ctx) + Send + Sync>;

pub struct ProgFamily {
    pub label: String,
    pub g: Arc<Grammar>,
    pub d: usize,
    pub cfgs: Vec<Cfg>,
    pub f: ProgFn,
}

impl Family for ProgFamily {
    fn name(&self) -> String {
        format!("{}:progs(d<={})x{}cfg", self.label, self.d, self.cfgs.len())
    }
    fn len(&self) -> u64 {
        self.g.count_upto(self.g.nt("Program"), self.d) * self.cfgs.len() as u64
    }
    fn run(&self, idx: u64, ctx: &mut Ctx) {
        let nc = self.cfgs.len() as u64;
        let toks = self.g.nth_upto(self.g.nt("Program"), self.d, idx / nc);
        (self.f)(&self.g, &toks, &self.cfgs[(idx % nc) as usize], ctx);
    }
    fn describe(&self, idx: u64) -> Value {
        let nc = self.cfgs.len() as u64;
        let toks = self.g.nth_upto(self.g.nt("Program"), self.d, idx / nc);
        json!({"input": layout::render(&toks, &layout::base_gaps(&toks, Base::L0)), "cfg": self.cfgs[(idx % nc) as usize]})
    }
    fn horizon_ms(&self) -> u64 {
        30000
    }
    fn transitions_per_case(&self) -> u64 {
        self.d as u64 + 1
    }
}

pub fn pf(label: &str, g: &Arc<Grammar>, d: usize, cfgs: &[Cfg], f: ProgFn) -> Box<dyn Family> {
    Box::new(ProgFamily {
        label: label.to_string(),
        g: g.clone(),
        d,
        cfgs: cfgs.to_vec(),
        f,
    })
}

// ---------------------------------------------------------------------------------------------
// seeds

#[derive(Clone)]
pub struct Seed {
    pub name: String,
    pub text: String,
    pub well_formed: bool,
}

pub fn load_seeds() -> Vec<Seed> {
    let path = concat!(env!("CARGO_MANIFEST_DIR"), "/../corpus/seeds.jsonl");
    let text = std::fs::read_to_string(path).expect("corpus/seeds.jsonl");
    let mut out = vec![];
    for line in text.lines() {
        let v: Value = serde_json::from_str(line).expect("seed line");
        let text = v["text"].as_str().unwrap().to_string();
        let wf = is_well_formed(&text);
        out.push(Seed {
            name: format!("{}#{}", v["name"].as_str().unwrap(), v["kind"].as_str().unwrap()),
            text,
            well_formed: wf,
        });
    }
    out
}

/// lexically sound and bracket/block balanced according to R
pub fn is_well_formed(x: &str) -> bool {
    let toks = r::scan(x);
    let mut paren = 0i32;
    let mut brack = 0i32;
    let mut blocks = 0i32;
    for t in &toks {
        match t.kind {
            Kind::Unknown | Kind::Text(r::TextKind::Unterminated) => return false,
            Kind::Comment(r::CommentKind::MultilineBlock) => {
                let tx = t.text(x);
                if !(tx.ends_with('}') || tx.ends_with("*)")) {
                    return false;
                }
            }
            Kind::Op(r::Op::LParen) => paren += 1,
            Kind::Op(r::Op::RParen) => paren -= 1,
            Kind::Op(r::Op::LBrack) => brack += 1,
            Kind::Op(r::Op::RBrack) => brack -= 1,
            Kind::Keyword(k) => match r::PURE[k] {
                "begin" | "try" | "case" | "asm" | "record" | "class" | "object" | "interface"
                | "dispinterface" => blocks += 1,
                "end" => blocks -= 1,
                _ => {}
            },
            _ => {}
        }
        if paren < 0 || brack < 0 {
            return false;
        }
    }
    // class/interface forward declarations and `class of` make the block count inexact; only
    // reject clearly truncated code
    paren == 0 && brack == 0 && blocks >= -1
}

pub type SeedFn = Box<dyn Fn(&Seed, &Cfg, &mut Ctx) + Send + Sync>;

pub struct SeedFamily {
    pub label: String,
    pub seeds: Arc<Vec<Seed>>,
    pub cfgs: Vec<Cfg>,
    pub f: SeedFn,
}

impl Family for SeedFamily {
    fn name(&self) -> String {
        format!("{}:seeds({})x{}cfg", self.label, self.seeds.len(), self.cfgs.len())
    }
    fn len(&self) -> u64 {
        self.seeds.len() as u64 * self.cfgs.len() as u64
    }
    fn run(&self, idx: u64, ctx: &mut Ctx) {
        let nc = self.cfgs.len() as u64;
        (self.f)(&self.seeds[(idx / nc) as usize], &self.cfgs[(idx % nc) as usize], ctx);
    }
    fn describe(&self, idx: u64) -> Value {
        let nc = self.cfgs.len() as u64;
        let s = &self.seeds[(idx / nc) as usize];
        json!({"seed": s.name, "input": s.text, "cfg": self.cfgs[(idx % nc) as usize]})
    }
    fn horizon_ms(&self) -> u64 {
        60000
    }
}

pub fn sf(label: &str, seeds: &Arc<Vec<Seed>>, cfgs: &[Cfg], f: SeedFn) -> Box<dyn Family> {
    Box::new(SeedFamily {
        label: label.to_string(),
        seeds: seeds.clone(),
        cfgs: cfgs.to_vec(),
        f,
    })
}

// ---------------------------------------------------------------------------------------------
// text-level re-layout (works on any text: R gives the tokens)

/// token indices i >= 1 whose preceding gap may be re-laid-out without touching a comment,
/// a directive, a verbatim unit, an asm line or a blank-line group
pub fn eligible_gaps(x: &str, toks: &[Tok]) -> Vec<usize> {
    let mask = o::verbatim_mask(x, toks);
    let commentish = |t: &Tok| {
        matches!(
            t.kind,
            Kind::Comment(_) | Kind::CompilerDirective | Kind::Conditional(_)
        )
    };
    let mut out = vec![];
    for i in 1..toks.len() {
        let (p, t) = (&toks[i - 1], &toks[i]);
        if commentish(p) || commentish(t) || mask[i] || mask[i - 1] || p.asm || t.asm {
            continue;
        }
        if t.kind == Kind::Eof {
            continue;
        }
        let lead = t.lead(x);
        if lead.matches('\n').count() > 1 || lead.contains('\r') {
            continue;
        }
        if !lead.chars().all(|c| c == ' ' || c == '\n' || c == '\t') {
            continue;
        }
        out.push(i);
    }
    out
}

pub fn with_gap(x: &str, toks: &[Tok], i: usize, gap: &str) -> String {
    let t = &toks[i];
    let mut s = String::with_capacity(x.len() + 8);
    s.push_str(&x[..t.ws]);
    s.push_str(gap);
    s.push_str(&x[t.start..]);
    s
}

pub fn with_gaps(x: &str, toks: &[Tok], sites: &[usize], gaps: &[&str]) -> String {
    let mut s = String::with_capacity(x.len() + 16);
    let mut pos = 0;
    for (k, &i) in sites.iter().enumerate() {
        let t = &toks[i];
        s.push_str(&x[pos..t.ws]);
        s.push_str(gaps[k]);
        pos = t.start;
    }
    s.push_str(&x[pos..]);
    s
}

pub struct RelayoutOpts {
    /// every alternative spelling of every single gap
    pub singles: bool,
    /// every pair of gaps flipped between " " and "\n"
    pub pairs: bool,
    /// all 2^g space/newline assignments when g <= this
    pub all_assignments_upto: usize,
}

/// C06 on text `x`: F(x') == F(x) for the re-layouts selected by `opts`
pub fn c06_relayouts(x: &str, cfg: &Cfg, opts: &RelayoutOpts, ctx: &mut Ctx) {
    let toks = r::scan(x);
    let sites = eligible_gaps(x, &toks);
    let base_out = ctx.fmt(cfg, x);
    let mut check = |x2: String, ctx: &mut Ctx| {
        if x2 == x {
            return;
        }
        if !layout::same_tokens(x, &x2) {
            ctx.count("relayout.rejected-changes-tokens");
            return;
        }
        ctx.sub_eval();
        ctx.nontrivial();
        let b = ctx.fmt(cfg, &x2);
        if b != base_out {
            ctx.fail(
                "C06",
                o2::c06_signature(x, &x2, &base_out, &b),
                o2::first_diff_line(&base_out, &b),
                json!({"oracle": "c06", "input": x, "input2": x2, "cfg": cfg}),
            );
        }
    };
    if opts.singles {
        for &i in &sites {
            let cur = toks[i].lead(x);
            for alt in layout::gap_alternatives(cur) {
                check(with_gap(x, &toks, i, alt), ctx);
            }
        }
    }
    if opts.singles {
        // blank-line grouping is kept, the blank line itself carries blanks (editor auto-indent) or not
        for &i in &sites {
            if !toks[i].lead(x).contains('\n') {
                continue;
            }
            let plain = with_gap(x, &toks, i, "\n\n");
            if !layout::same_tokens(x, &plain) {
                continue;
            }
            let want = ctx.fmt(cfg, &plain);
            for alt in ["\n \t\n", "\n    \n  ", "\n\t\n\t"] {
                let x2 = with_gap(x, &toks, i, alt);
                ctx.sub_eval();
                ctx.nontrivial();
                let b = ctx.fmt(cfg, &x2);
                if b != want {
                    ctx.fail(
                        "C06",
                        "layout-dependent-output:blanks-on-a-blank-line",
                        o2::first_diff_line(&want, &b),
                        json!({"oracle": "c06", "input": plain, "input2": x2, "cfg": cfg}),
                    );
                }
            }
        }
    }
    let flip = |cur: &str| if cur.contains('\n') { " " } else { "\n" };
    if opts.pairs {
        for a in 0..sites.len() {
            for b in (a + 1)..sites.len() {
                let ga = flip(toks[sites[a]].lead(x));
                let gb = flip(toks[sites[b]].lead(x));
                check(with_gaps(x, &toks, &[sites[a], sites[b]], &[ga, gb]), ctx);
            }
        }
    }
    if !sites.is_empty() && sites.len() <= opts.all_assignments_upto {
        let g = sites.len();
        for m in 0..(1u32 << g) {
            let gaps: Vec<&str> = (0..g).map(|k| if m >> k & 1 == 1 { "\n" } else { " " }).collect();
            check(with_gaps(x, &toks, &sites, &gaps), ctx);
        }
    }
}

// ---------------------------------------------------------------------------------------------
// variants of a generated program

pub fn base_texts(toks: &[GTok]) -> Vec<String> {
    [Base::L0, Base::L1, Base::L2]
        .iter()
        .map(|b| layout::render(toks, &layout::base_gaps(toks, *b)))
        .collect()
}

pub struct VariantOpts {
    pub comments: bool,
    pub directives: bool,
    pub gap_flips: bool,
}

/// calls `f` on every selected variant text of the program
pub fn for_variants(g: &Grammar, toks: &[GTok], opts: &VariantOpts, mut f: impl FnMut(&str, &'static str)) {
    let l0 = layout::base_gaps(toks, Base::L0);
    for t in base_texts(toks) {
        f(&t, "base");
    }
    let frozen = layout::frozen_gaps(toks);
    if opts.gap_flips {
        let l1 = layout::base_gaps(toks, Base::L1);
        for i in 1..toks.len() {
            if frozen[i] || toks[i].hard_nl {
                continue;
            }
            let mut gaps = l1.clone();
            gaps[i] = "\n".to_string();
            f(&layout::render(toks, &gaps), "flip");
            let mut gaps = l0.clone();
            gaps[i] = if l0[i] == "\n" { " " } else { "\n" }.to_string();
            f(&layout::render(toks, &gaps), "flip");
        }
    }
    if opts.comments {
        for i in 1..toks.len() {
            if frozen[i] {
                continue;
            }
            for k in 0..layout::COMMENTS.len() {
                for p in 0..4 {
                    f(&layout::with_comment(toks, &l0, i, k, p), "comment");
                }
            }
        }
    }
    if opts.directives {
        let nts: Vec<usize> = ["Stmt", "TypeDecl", "Method", "Property", "RoutineImpl", "RoutineHeader", "Fields"]
            .iter()
            .map(|n| g.nt(n))
            .collect();
        for (a, b) in layout::spans(toks, &nts) {
            if (a..b).any(|j| frozen[j]) && !(toks[a].text == "asm") {
                continue;
            }
            for k in 0..3 {
                f(&layout::with_directive(toks, &l0, a, b, k), "directive");
            }
        }
    }
}

// ---------------------------------------------------------------------------------------------
// deep nesting: a statement (any derivation of Stmt with <= d deviations) wrapped in k nested
// control structures of one kind; marks as in the grammar

use crate::grammar::{M_B, M_C, M_K, M_O, M_S};

fn gt(text: &str, marks: u16) -> GTok {
    GTok { text: text.to_string(), marks, pop_k: 0, pop_o: 0, hard_nl: false, starts: vec![] }
}

pub const NEST_KINDS: usize = 6;

pub fn nest(core: &[GTok], k: usize, kind: usize) -> Vec<GTok> {
    let mut inner: Vec<GTok> = core.to_vec();
    if let Some(f) = inner.first_mut() {
        f.marks |= M_S;
    }
    for _ in 0..k {
        let mut out: Vec<GTok> = vec![];
        match kind {
            0 => {
                // while a do begin <inner> end ;
                out.extend([gt("while", M_S | M_K), gt("a", 0), gt("do", 0), gt("begin", M_B | M_O)]);
                out.extend(inner);
                out.extend([gt("end", M_C), gt(";", 0)]);
                out.last_mut().unwrap().pop_k = 1;
            }
            1 => {
                // if a then begin <inner> end else begin a ; end ;
                out.extend([gt("if", M_S | M_K), gt("a", 0), gt("then", 0), gt("begin", M_B | M_O)]);
                out.extend(inner);
                out.extend([gt("end", M_C), gt("else", 0), gt("begin", M_B | M_O), gt("a", M_S), gt(";", 0), gt("end", M_C), gt(";", 0)]);
                out.last_mut().unwrap().pop_k = 1;
            }
            2 => {
                // try <inner> finally a ; end ;
                out.extend([gt("try", M_S | M_O)]);
                out.extend(inner);
                out.extend([gt("finally", M_C | M_O), gt("a", M_S), gt(";", 0), gt("end", M_C), gt(";", 0)]);
            }
            3 => {
                // case x of 1 : begin <inner> end ; end ;
                out.extend([gt("case", M_S | M_O), gt("x", 0), gt("of", 0), gt("1", M_K), gt(":", 0), gt("begin", M_B | M_O)]);
                out.extend(inner);
                out.extend([gt("end", M_C), gt(";", 0)]);
                out.last_mut().unwrap().pop_k = 1;
                out.extend([gt("end", M_C), gt(";", 0)]);
            }
            4 => {
                // repeat <inner> until a ;
                out.extend([gt("repeat", M_S | M_O)]);
                out.extend(inner);
                out.extend([gt("until", M_C), gt("a", 0), gt(";", 0)]);
            }
            _ => {
                // if a then <inner-as-body> else if b then begin a ; end else a ;   (else-if chain)
                out.extend([gt("if", M_S | M_K), gt("a", 0), gt("then", 0), gt("begin", M_B | M_O)]);
                out.extend(inner);
                out.extend([gt("end", M_C), gt("else", 0), gt("if", 0), gt("b", 0), gt("then", 0), gt("begin", M_B | M_O), gt("a", M_S), gt(";", 0), gt("end", M_C), gt("else", 0), gt("a", 0), gt(";", 0)]);
                out.last_mut().unwrap().pop_k = 1;
            }
        }
        inner = out;
    }
    let mut prog = vec![gt("begin", M_O)];
    prog.extend(inner);
    prog.extend([gt("end", M_C), gt(";", 0)]);
    prog
}

pub struct DeepFamily {
    pub label: String,
    pub g: Arc<Grammar>,
    pub d: usize,
    pub max_depth: usize,
    pub cfgs: Vec<Cfg>,
    pub f: ProgFn,
}

impl DeepFamily {
    fn decode(&self, idx: u64) -> (Vec<GTok>, Cfg) {
        let nc = self.cfgs.len() as u64;
        let cfg = self.cfgs[(idx % nc) as usize];
        let mut r = idx / nc;
        let kind = (r % NEST_KINDS as u64) as usize;
        r /= NEST_KINDS as u64;
        let k = (r % self.max_depth as u64) as usize + 1;
        r /= self.max_depth as u64;
        let core = self.g.nth_upto(self.g.nt("Stmt"), self.d, r);
        (nest(&core, k, kind), cfg)
    }
}

impl Family for DeepFamily {
    fn name(&self) -> String {
        format!("{}:deep(stmt d<={},depth<={},kinds={})x{}cfg", self.label, self.d, self.max_depth, NEST_KINDS, self.cfgs.len())
    }
    fn len(&self) -> u64 {
        self.g.count_upto(self.g.nt("Stmt"), self.d) * self.max_depth as u64 * NEST_KINDS as u64 * self.cfgs.len() as u64
    }
    fn run(&self, idx: u64, ctx: &mut Ctx) {
        let (toks, cfg) = self.decode(idx);
        (self.f)(&self.g, &toks, &cfg, ctx);
    }
    fn describe(&self, idx: u64) -> Value {
        let (toks, cfg) = self.decode(idx);
        json!({"input": layout::render(&toks, &layout::base_gaps(&toks, Base::L1)), "cfg": cfg})
    }
    fn horizon_ms(&self) -> u64 {
        30000
    }
}


/// a control-flow body with very many statements (per-file budgets and caches of the wrapper):
/// `sizes` statements of 2 shapes inside 1..2 levels of each nesting kind
pub struct WideFamily {
    pub label: String,
    pub g: Arc<Grammar>,
    pub sizes: Vec<usize>,
    pub cfgs: Vec<Cfg>,
    pub f: ProgFn,
}

impl WideFamily {
    fn decode(&self, idx: u64) -> (Vec<GTok>, Cfg) {
        let nc = self.cfgs.len() as u64;
        let cfg = self.cfgs[(idx % nc) as usize];
        let mut r = idx / nc;
        let kind = (r % NEST_KINDS as u64) as usize;
        r /= NEST_KINDS as u64;
        let k = (r % 2) as usize + 1;
        r /= 2;
        let shape = (r % 2) as usize;
        r /= 2;
        let n = self.sizes[r as usize % self.sizes.len()];
        let mut core: Vec<GTok> = vec![];
        for i in 0..n {
            if shape == 0 {
                core.extend([gt("a", M_S), gt(";", 0)]);
            } else {
                core.extend([gt(&format!("x{}", i % 7), M_S), gt(":=", 0), gt("f", 0), gt("(", 0), gt("a", 0), gt(",", 0), gt("b", 0), gt(")", 0), gt(";", 0)]);
            }
        }
        (nest(&core, k, kind), cfg)
    }
}

impl Family for WideFamily {
    fn name(&self) -> String {
        format!("{}:wide(statements{:?},shapes=2,depth<=2,kinds={})x{}cfg", self.label, self.sizes, NEST_KINDS, self.cfgs.len())
    }
    fn len(&self) -> u64 {
        (self.sizes.len() * 2 * 2 * NEST_KINDS * self.cfgs.len()) as u64
    }
    fn run(&self, idx: u64, ctx: &mut Ctx) {
        let (toks, cfg) = self.decode(idx);
        (self.f)(&self.g, &toks, &cfg, ctx);
    }
    fn describe(&self, idx: u64) -> Value {
        let (toks, cfg) = self.decode(idx);
        let text = layout::render(&toks, &layout::base_gaps(&toks, Base::L1));
        json!({"input_head": text.chars().take(200).collect::<String>(), "tokens": toks.len(), "cfg": cfg})
    }
    fn horizon_ms(&self) -> u64 {
        120_000
    }
}
