//! G — grammar of well-formed programs as data (grammar.txt), and the enumeration of all
//! derivations with a bounded number of deviations from the default productions.
use std::collections::HashMap;

pub const M_S: u16 = 1; // statement-list member
pub const M_D: u16 = 2; // declaration-section member
pub const M_O: u16 = 4; // opens a block
pub const M_C: u16 = 8; // closes a block
pub const M_K: u16 = 16; // first token of a control statement
pub const M_B: u16 = 32; // begin of a control-flow body
pub const M_A: u16 = 64; // opener of an anonymous routine body
pub const M_T: u16 = 128; // opener of a type body
pub const M_I: u16 = 256; // identifier spelled like a contextual keyword
pub const M_Y: u16 = 512; // body statement of a control statement (no begin/end)

#[derive(Debug, Clone, PartialEq)]
pub struct GTok {
    pub text: String,
    pub marks: u16,
    /// pops of the control-statement stack after this token
    pub pop_k: u8,
    /// silent pops of the block stack after this token
    pub pop_o: u8,
    /// a hard line break is required before this token
    pub hard_nl: bool,
    /// the nonterminal slot kind this token starts (index into Grammar::names), if any; and
    /// the number of tokens of that subtree
    pub starts: Vec<(usize, usize)>,
}

#[derive(Debug, Clone)]
enum Item {
    Tok { text: String, marks: u16 },
    Slot { nt: usize, marks: u16 },
    PopK,
    PopO,
    HardNl,
}

#[derive(Debug, Clone)]
struct Prod {
    cost: u32,
    items: Vec<Item>,
}

pub struct Grammar {
    pub names: Vec<String>,
    prods: Vec<Vec<Prod>>,
    /// cnt[nt][c] = number of derivations of nt with exactly c deviations (c <= maxd)
    cnt: Vec<Vec<u64>>,
    pub maxd: usize,
}

fn parse_marks(s: &str) -> u16 {
    let mut m = 0;
    for ch in s.chars() {
        m |= match ch {
            'S' => M_S,
            'D' => M_D,
            'O' => M_O,
            'C' => M_C,
            'K' => M_K,
            'B' => M_B,
            'A' => M_A,
            'T' => M_T,
            'I' => M_I,
            'Y' => M_Y,
            _ => panic!("bad mark {ch}"),
        };
    }
    m
}

fn split_marks(word: &str) -> (&str, u16) {
    if let Some(pos) = word.rfind('@') {
        let (a, b) = (&word[..pos], &word[pos + 1..]);
        if !a.is_empty() && !b.is_empty() && b.chars().all(|c| "SDOCKBATI".contains(c)) {
            return (a, parse_marks(b));
        }
    }
    (word, 0)
}

impl Grammar {
    pub fn load(maxd: usize) -> Grammar {
        let text = include_str!("grammar.txt");
        let mut names: Vec<String> = vec![];
        let mut raw: Vec<Vec<(u32, Vec<String>)>> = vec![];
        for line in text.lines() {
            let l = line.trim_end();
            if l.trim().is_empty() || l.trim_start().starts_with("# ") || l.trim() == "#" {
                continue;
            }
            if !l.starts_with(' ') {
                let name = l.trim().trim_end_matches(':').to_string();
                names.push(name);
                raw.push(vec![]);
                continue;
            }
            let t = l.trim_start();
            let (cost, rest) = if let Some(r) = t.strip_prefix('*') {
                (0, r)
            } else if let Some(r) = t.strip_prefix('|') {
                (1, r)
            } else {
                panic!("bad grammar line {l:?}");
            };
            let words: Vec<String> = rest.split_whitespace().map(|w| w.to_string()).collect();
            raw.last_mut().unwrap().push((cost, words));
        }
        let index: HashMap<String, usize> = names
            .iter()
            .enumerate()
            .map(|(i, n)| (n.clone(), i))
            .collect();
        let mut prods = vec![];
        for nt in &raw {
            let mut ps = vec![];
            for (cost, words) in nt {
                let mut items = vec![];
                for w in words {
                    if w == "~" {
                        items.push(Item::PopK);
                    } else if w == "~~" {
                        items.push(Item::PopO);
                    } else if w == "⏎" {
                        items.push(Item::HardNl);
                    } else if w.starts_with('{')
                        && w.ends_with('}')
                        && w.len() > 2
                        && w[1..w.len() - 1].chars().all(|c| c.is_ascii_alphabetic() || c == '@')
                    {
                        let inner = &w[1..w.len() - 1];
                        let (name, marks) = match inner.split_once('@') {
                            Some((n, m)) => (n, parse_marks(m)),
                            None => (inner, 0),
                        };
                        match index.get(name) {
                            Some(&nt) => items.push(Item::Slot { nt, marks }),
                            None => panic!("unknown nonterminal {name}"),
                        }
                    } else {
                        let (t, marks) = split_marks(w);
                        let text = t.replace('·', " ").replace('⏎', "\n");
                        items.push(Item::Tok { text, marks });
                    }
                }
                ps.push(Prod { cost: *cost, items });
            }
            prods.push(ps);
        }
        let mut g = Grammar {
            names,
            prods,
            cnt: vec![],
            maxd,
        };
        g.count();
        g
    }

    pub fn nt(&self, name: &str) -> usize {
        self.names.iter().position(|n| n == name).expect("nonterminal")
    }

    fn slots(p: &Prod) -> Vec<usize> {
        p.items
            .iter()
            .filter_map(|i| match i {
                Item::Slot { nt, .. } => Some(*nt),
                _ => None,
            })
            .collect()
    }

    /// number of ways the slots can use exactly c deviations in total
    fn conv(&self, slots: &[usize], c: usize) -> u64 {
        // dp over slots
        let mut dp = vec![0u64; c + 1];
        dp[0] = 1;
        for &s in slots {
            let mut nd = vec![0u64; c + 1];
            for used in 0..=c {
                if dp[used] == 0 {
                    continue;
                }
                for x in 0..=(c - used) {
                    nd[used + x] += dp[used] * self.cnt[s][x];
                }
            }
            dp = nd;
        }
        dp[c]
    }

    fn count(&mut self) {
        let n = self.names.len();
        self.cnt = vec![vec![0; self.maxd + 1]; n];
        // increasing c; within one c iterate to a fixpoint (cost-0 cycles are not allowed, so the
        // dependency order among nonterminals at equal cost is acyclic: iterate n times)
        for c in 0..=self.maxd {
            for _round in 0..n {
                let mut changed = false;
                for nt in 0..n {
                    let mut total = 0u64;
                    for p in &self.prods[nt] {
                        if (p.cost as usize) > c {
                            continue;
                        }
                        total += self.conv(&Self::slots(p), c - p.cost as usize);
                    }
                    if total != self.cnt[nt][c] {
                        self.cnt[nt][c] = total;
                        changed = true;
                    }
                }
                if !changed {
                    break;
                }
            }
        }
    }

    /// number of derivations of `nt` with at most d deviations
    pub fn count_upto(&self, nt: usize, d: usize) -> u64 {
        (0..=d.min(self.maxd)).map(|c| self.cnt[nt][c]).sum()
    }

    /// idx-th derivation of `nt` with at most d deviations (fewest deviations first)
    pub fn nth_upto(&self, nt: usize, d: usize, mut idx: u64) -> Vec<GTok> {
        for c in 0..=d {
            if idx < self.cnt[nt][c] {
                let mut out = vec![];
                self.nth(nt, c, idx, 0, &mut out);
                return out;
            }
            idx -= self.cnt[nt][c];
        }
        panic!("derivation index out of range");
    }

    fn nth(&self, nt: usize, c: usize, mut idx: u64, marks: u16, out: &mut Vec<GTok>) {
        let start = out.len();
        let mut pending_marks = marks;
        for p in &self.prods[nt] {
            if (p.cost as usize) > c {
                continue;
            }
            let rem = c - p.cost as usize;
            let slots = Self::slots(p);
            let n = self.conv(&slots, rem);
            if idx >= n {
                idx -= n;
                continue;
            }
            // decode the distribution of `rem` among the slots, and the per-slot indices
            let mut alloc = vec![0usize; slots.len()];
            let mut sub_idx = vec![0u64; slots.len()];
            let mut rem_left = rem;
            for (si, &s) in slots.iter().enumerate() {
                // choose x for slot si: count of completions with the remaining slots
                for x in 0..=rem_left {
                    let rest = self.conv(&slots[si + 1..], rem_left - x);
                    let block = self.cnt[s][x] * rest;
                    if idx < block {
                        alloc[si] = x;
                        sub_idx[si] = idx / rest.max(1);
                        idx %= rest.max(1);
                        rem_left -= x;
                        break;
                    }
                    idx -= block;
                }
            }
            let mut si = 0;
            let mut hard_nl = false;
            for item in &p.items {
                match item {
                    Item::Tok { text, marks } => {
                        out.push(GTok {
                            text: text.clone(),
                            marks: *marks | pending_marks,
                            pop_k: 0,
                            pop_o: 0,
                            hard_nl,
                            starts: vec![],
                        });
                        pending_marks = 0;
                        hard_nl = false;
                    }
                    Item::Slot { nt: s, marks } => {
                        let before = out.len();
                        self.nth(*s, alloc[si], sub_idx[si], *marks | pending_marks, out);
                        if out.len() > before {
                            pending_marks = 0;
                            if hard_nl {
                                out[before].hard_nl = true;
                                hard_nl = false;
                            }
                        }
                        si += 1;
                    }
                    Item::PopK => {
                        if let Some(l) = out.last_mut() {
                            l.pop_k += 1;
                        }
                    }
                    Item::PopO => {
                        if let Some(l) = out.last_mut() {
                            l.pop_o += 1;
                        }
                    }
                    Item::HardNl => hard_nl = true,
                }
            }
            let len = out.len() - start;
            if len > 0 {
                out[start].starts.push((nt, len));
            }
            return;
        }
        panic!("nth: index out of range for {}", self.names[nt]);
    }
}

/// plain rendering: one space between tokens, hard line breaks honoured
pub fn render_flat(toks: &[GTok]) -> String {
    let mut s = String::new();
    for (i, t) in toks.iter().enumerate() {
        if i > 0 {
            s.push_str(if t.hard_nl { "\n" } else { " " });
        }
        s.push_str(&t.text);
    }
    s
}
