//! Sharded, watchdogged, deterministic execution of enumerated case families.
//!
//! parent (`run`)  : for every family of a check, W shard supervisors; each spawns a worker
//!                   process, merges the segments it reports, and restarts it after a hang
//!                   (worker's own watchdog exits with code 3) or a signal death (re-run of the
//!                   last segment in slow mode pins the culprit).
//! worker          : runs cases idx = shard + k*W, k = from.., flushing a segment every ~0.4 s.
use crate::cfg::Cfg;
use pasfmt_core::prelude::{Cursor, FileOptions, Formatter};
use serde::{Deserialize, Serialize};
use serde_json::{json, Value};
use std::cell::RefCell;
use std::collections::{BTreeMap, HashMap};
use std::io::{BufRead, BufReader, Write};
use std::panic::{catch_unwind, AssertUnwindSafe};
use std::process::{Command, Stdio};
use std::sync::atomic::{AtomicU64, Ordering};
use std::sync::{Arc, Mutex};
use std::time::{Duration, Instant};

pub const MAX_STORED_PER_SIGNATURE: usize = 12;

#[derive(Debug, Clone, Serialize, Deserialize)]
pub struct Violation {
    pub property: String,
    /// mechanism-level signature used for known-finding matching
    pub signature: String,
    pub family: String,
    pub idx: u64,
    /// explicit, replayable description: {oracle, input, cfg, ...}
    pub case: Value,
    pub detail: String,
}

#[derive(Debug, Clone, Serialize, Deserialize)]
pub struct Undecided {
    pub kind: String, // panic | hang | abort
    pub site: String,
    pub family: String,
    pub idx: u64,
    pub case: Value,
}

#[derive(Debug, Default, Clone, Serialize, Deserialize)]
pub struct Stats {
    pub evaluations: u64,
    pub nontrivial: u64,
    pub formats: u64,
    pub counters: BTreeMap<String, u64>,
    pub violation_count: u64,
    pub by_signature: BTreeMap<String, u64>,
    pub violations: Vec<Violation>,
    pub undecided_count: u64,
    pub undecided: Vec<Undecided>,
}

impl Stats {
    pub fn merge(&mut self, o: Stats) {
        self.evaluations += o.evaluations;
        self.nontrivial += o.nontrivial;
        self.formats += o.formats;
        for (k, v) in o.counters {
            *self.counters.entry(k).or_default() += v;
        }
        self.violation_count += o.violation_count;
        for (k, v) in o.by_signature {
            *self.by_signature.entry(k).or_default() += v;
        }
        for v in o.violations {
            self.push_violation(v);
        }
        self.undecided_count += o.undecided_count;
        for u in o.undecided {
            if self.undecided.len() < 40 {
                self.undecided.push(u);
            }
        }
    }
    fn push_violation(&mut self, v: Violation) {
        let n = self
            .violations
            .iter()
            .filter(|x| x.signature == v.signature && x.property == v.property)
            .count();
        if n < MAX_STORED_PER_SIGNATURE {
            self.violations.push(v);
        }
    }
}

thread_local! {
    static LAST_PANIC: RefCell<Option<String>> = const { RefCell::new(None) };
}

thread_local! {
    static LOG_NO_SOLUTION: std::cell::Cell<u64> = const { std::cell::Cell::new(0) };
    static LOG_ITER_LIMIT: std::cell::Cell<u64> = const { std::cell::Cell::new(0) };
    static LOG_FIXED_BREAK: std::cell::Cell<u64> = const { std::cell::Cell::new(0) };
}

/// Observes the three diagnostics the formatter logs when it falls back: "No solution found",
/// "Iteration limit reached", "Fixed missing line break".
struct Observer;
impl log::Log for Observer {
    fn enabled(&self, m: &log::Metadata) -> bool {
        m.level() <= log::Level::Warn
    }
    fn log(&self, rec: &log::Record) {
        if rec.level() > log::Level::Warn {
            return;
        }
        let msg = format!("{}", rec.args());
        if msg.starts_with("No solution found") {
            LOG_NO_SOLUTION.with(|c| c.set(c.get() + 1));
        } else if msg.starts_with("Iteration limit reached") {
            LOG_ITER_LIMIT.with(|c| c.set(c.get() + 1));
        } else if msg.starts_with("Fixed missing line break") {
            LOG_FIXED_BREAK.with(|c| c.set(c.get() + 1));
        }
    }
    fn flush(&self) {}
}

pub fn install_log_observer() {
    static OBS: Observer = Observer;
    let _ = log::set_logger(&OBS);
    log::set_max_level(log::LevelFilter::Warn);
}

#[derive(Debug, Clone, Copy, Default, PartialEq)]
pub struct Fallbacks {
    pub no_solution: u64,
    pub iteration_limit: u64,
    pub fixed_break: u64,
}

/// fallbacks logged since the last call
pub fn take_fallbacks() -> Fallbacks {
    Fallbacks {
        no_solution: LOG_NO_SOLUTION.with(|c| c.replace(0)),
        iteration_limit: LOG_ITER_LIMIT.with(|c| c.replace(0)),
        fixed_break: LOG_FIXED_BREAK.with(|c| c.replace(0)),
    }
}

pub fn install_panic_hook() {
    std::panic::set_hook(Box::new(|info| {
        let loc = info
            .location()
            .map(|l| format!("{}:{}", l.file(), l.line()))
            .unwrap_or_default();
        let msg = if let Some(s) = info.payload().downcast_ref::<&str>() {
            s.to_string()
        } else if let Some(s) = info.payload().downcast_ref::<String>() {
            s.clone()
        } else {
            "?".to_string()
        };
        LAST_PANIC.with(|p| *p.borrow_mut() = Some(format!("{loc}: {msg}")));
    }));
}

pub fn take_last_panic() -> String {
    LAST_PANIC
        .with(|p| p.borrow_mut().take())
        .unwrap_or_else(|| "unknown".into())
}

/// Runs `f`, converting a panic into Err(site)
pub fn guarded<T>(f: impl FnOnce() -> T) -> Result<T, String> {
    match catch_unwind(AssertUnwindSafe(f)) {
        Ok(v) => Ok(v),
        Err(_) => Err(take_last_panic()),
    }
}

pub struct Ctx {
    pub family: String,
    pub idx: u64,
    pub panics_are_violations: Option<String>, // property id to charge panics to (C04)
    formatters: HashMap<Cfg, Formatter>,
    pub stats: Stats,
    nontrivial_marked: bool,
    /// fall-backs logged by the formatter during the current (sub-)case
    pub fb: Fallbacks,
    /// the text (configuration, cursors) handed to the formatter last: what a panic is blamed on
    pub last: Option<(Cfg, String, Vec<u32>)>,
}

impl Ctx {
    pub fn new(family: &str) -> Ctx {
        Ctx {
            family: family.to_string(),
            idx: 0,
            panics_are_violations: None,
            formatters: HashMap::new(),
            stats: Stats::default(),
            nontrivial_marked: false,
            fb: Fallbacks::default(),
            last: None,
        }
    }
    pub fn formatter(&mut self, cfg: &Cfg) -> &Formatter {
        self.formatters.entry(*cfg).or_insert_with(|| cfg.formatter())
    }
    pub fn fmt(&mut self, cfg: &Cfg, input: &str) -> String {
        self.stats.formats += 1;
        match &mut self.last {
            Some((c, s, cur)) => {
                *c = *cfg;
                s.clear();
                s.push_str(input);
                cur.clear();
            }
            None => self.last = Some((*cfg, input.to_string(), vec![])),
        }
        let out = self.formatter(cfg).format(input, FileOptions::new());
        let f = take_fallbacks();
        self.fb.no_solution += f.no_solution;
        self.fb.iteration_limit += f.iteration_limit;
        self.fb.fixed_break += f.fixed_break;
        out
    }
    /// format and report which fall-backs the formatter logged while doing so
    pub fn fmt_obs(&mut self, cfg: &Cfg, input: &str) -> (String, Fallbacks) {
        let before = self.fb;
        let out = self.fmt(cfg, input);
        let f = Fallbacks {
            no_solution: self.fb.no_solution - before.no_solution,
            iteration_limit: self.fb.iteration_limit - before.iteration_limit,
            fixed_break: self.fb.fixed_break - before.fixed_break,
        };
        (out, f)
    }
    pub fn fmt_cursors(&mut self, cfg: &Cfg, input: &str, cursors: &mut [Cursor]) -> String {
        self.stats.formats += 1;
        self.last = Some((*cfg, input.to_string(), cursors.iter().map(|c| c.0).collect()));
        self.formatter(cfg)
            .format(input, FileOptions::new().with_cursors(cursors))
    }
    pub fn count(&mut self, label: &str) {
        *self.stats.counters.entry(label.to_string()).or_default() += 1;
    }
    pub fn count_n(&mut self, label: &str, n: u64) {
        *self.stats.counters.entry(label.to_string()).or_default() += n;
    }
    /// a further evaluation inside the current case (a case may bundle several sub-cases)
    pub fn sub_eval(&mut self) {
        self.stats.evaluations += 1;
        self.nontrivial_marked = false;
        self.fb = Fallbacks::default();
    }
    pub fn nontrivial(&mut self) {
        if !self.nontrivial_marked {
            self.nontrivial_marked = true;
            self.stats.nontrivial += 1;
        }
    }
    pub fn fail(&mut self, property: &str, signature: &str, detail: String, case: Value) {
        // the mechanism is part of the signature: a line the optimising formatter gave up on is
        // left as the input had it, which explains a whole class of downstream effects
        let signature = &if self.fb.no_solution > 0 {
            format!("{signature}:no-wrapping-solution")
        } else if self.fb.iteration_limit > 0 {
            format!("{signature}:iteration-limit-reached")
        } else {
            signature.to_string()
        };
        self.stats.violation_count += 1;
        *self
            .stats
            .by_signature
            .entry(format!("{property}|{signature}"))
            .or_default() += 1;
        let v = Violation {
            property: property.to_string(),
            signature: signature.to_string(),
            family: self.family.clone(),
            idx: self.idx,
            case,
            detail,
        };
        self.stats.push_violation(v);
    }
    pub fn undecided(&mut self, kind: &str, site: String, case: Value) {
        self.stats.undecided_count += 1;
        if self.stats.undecided.len() < 40 {
            self.stats.undecided.push(Undecided {
                kind: kind.to_string(),
                site,
                family: self.family.clone(),
                idx: self.idx,
                case,
            });
        }
    }
    fn begin_case(&mut self, idx: u64) {
        self.idx = idx;
        self.last = None;
        self.nontrivial_marked = false;
        self.fb = Fallbacks::default();
        let _ = take_fallbacks();
        self.stats.evaluations += 1;
    }
}

pub trait Family: Send + Sync {
    fn name(&self) -> String;
    fn len(&self) -> u64;
    /// run case `idx` (0 <= idx < len) and record everything in ctx
    fn run(&self, idx: u64, ctx: &mut Ctx);
    /// explicit description of a case (for samples, hang/abort reports)
    fn describe(&self, idx: u64) -> Value;
    /// per-case wall-clock horizon for the hang watchdog
    fn horizon_ms(&self) -> u64 {
        1500
    }
    /// generator edges per case (for the `transitions` evidence key)
    fn transitions_per_case(&self) -> u64 {
        1
    }
}

// ---------------------------------------------------------------------------------------------
// worker

static CUR_SEQ: AtomicU64 = AtomicU64::new(0);
static CUR_IDX: AtomicU64 = AtomicU64::new(0);
static PAUSED: std::sync::atomic::AtomicBool = std::sync::atomic::AtomicBool::new(true);

pub struct WorkerArgs {
    pub shard: u64,
    pub shards: u64,
    pub from: u64,
    pub skip: Vec<u64>,
    pub slow: bool,
    pub charge_crashes_to: Option<String>,
}

pub fn worker_main(family: &dyn Family, a: WorkerArgs) -> ! {
    install_panic_hook();
    install_log_observer();
    let horizon = Duration::from_millis(
        std::env::var("VERIF_HORIZON_MS")
            .ok()
            .and_then(|v| v.parse().ok())
            .unwrap_or(family.horizon_ms()),
    );
    // watchdog: a case "hangs" when the worker's main thread has burnt more than the horizon of CPU
    // time on it (robust against a loaded machine), or when it has been stuck for 40 x the horizon of
    // wall-clock time (a blocked thread burns no CPU)
    fn main_thread_cpu() -> Duration {
        // /proc/self/schedstat: "<ns on cpu> <ns waiting> <timeslices>" of the thread-group leader
        std::fs::read_to_string("/proc/self/schedstat")
            .ok()
            .and_then(|t| t.split_whitespace().next().and_then(|v| v.parse::<u64>().ok()))
            .map(Duration::from_nanos)
            .unwrap_or_default()
    }
    std::thread::spawn(move || {
        let mut last_seq = CUR_SEQ.load(Ordering::Relaxed);
        let mut since = Instant::now();
        let mut since_cpu = main_thread_cpu();
        loop {
            std::thread::sleep(Duration::from_millis(50));
            let s = CUR_SEQ.load(Ordering::Relaxed);
            if s != last_seq || PAUSED.load(Ordering::Relaxed) {
                last_seq = s;
                since = Instant::now();
                since_cpu = main_thread_cpu();
            } else if main_thread_cpu().saturating_sub(since_cpu) > horizon || since.elapsed() > horizon * 40 {
                let idx = CUR_IDX.load(Ordering::Relaxed);
                let out = std::io::stdout();
                let mut out = out.lock();
                let _ = writeln!(out, "{}", json!({"hang": idx}));
                let _ = out.flush();
                std::process::exit(3);
            }
        }
    });

    let mut ctx = Ctx::new(&family.name());
    ctx.panics_are_violations = a.charge_crashes_to.clone();
    let len = family.len();
    let mut k = a.from;
    let mut seg_from = a.from;
    let mut last_flush = Instant::now();
    let stdout = std::io::stdout();
    loop {
        let idx = a.shard + k * a.shards;
        if idx >= len {
            break;
        }
        if !a.skip.contains(&idx) {
            if a.slow {
                let mut out = stdout.lock();
                let _ = writeln!(out, "{}", json!({"at": idx}));
                let _ = out.flush();
            }
            CUR_IDX.store(idx, Ordering::Relaxed);
            CUR_SEQ.fetch_add(1, Ordering::Relaxed);
            PAUSED.store(false, Ordering::Relaxed);
            ctx.begin_case(idx);
            if let Err(site) = guarded(|| family.run(idx, &mut ctx)) {
                // blame the text that was being formatted (a case may bundle many texts)
                let case = match ctx.last.take() {
                    Some((c, text, cursors)) => json!({"oracle": "c04", "input": text, "cfg": c, "cursor_list": cursors, "of_case": idx}),
                    None => family.describe(idx),
                };
                ctx.undecided("panic", site, case);
            }
        }
        k += 1;
        if (k & 0x3f) == 0 && last_flush.elapsed() > Duration::from_millis(400) {
            PAUSED.store(true, Ordering::Relaxed); // pause the watchdog while flushing
            flush_segment(&mut ctx, seg_from, k);
            seg_from = k;
            last_flush = Instant::now();
        }
    }
    PAUSED.store(true, Ordering::Relaxed);
    flush_segment(&mut ctx, seg_from, k);
    std::process::exit(0);
}

fn flush_segment(ctx: &mut Ctx, from: u64, to: u64) {
    let stats = std::mem::take(&mut ctx.stats);
    let out = std::io::stdout();
    let mut out = out.lock();
    let _ = writeln!(out, "{}", json!({"segment": {"from": from, "to": to, "stats": stats}}));
    let _ = out.flush();
}

// ---------------------------------------------------------------------------------------------
// parent

pub static MACHINERY_FAILED: std::sync::atomic::AtomicBool =
    std::sync::atomic::AtomicBool::new(false);

pub struct RunOpts {
    pub jobs: u64,
    pub check: String,
    pub tier: String,
    pub charge_crashes_to: Option<String>,
    /// stop exploring when this many undecided cases were seen (non-C04 checks)
    pub undecided_cap: u64,
}

pub struct FamilyResult {
    pub name: String,
    pub len: u64,
    pub stats: Stats,
    pub wall_s: f64,
    pub complete: bool,
    pub transitions_per_case: u64,
}

pub fn run_family(
    family: &dyn Family,
    family_index: usize,
    opts: &RunOpts,
    exe: &std::path::Path,
) -> FamilyResult {
    let t0 = Instant::now();
    let len = family.len();
    let shards = opts.jobs.min(len.max(1)).max(1);
    let total = Arc::new(Mutex::new(Stats::default()));
    let aborted = Arc::new(std::sync::atomic::AtomicBool::new(false));
    std::thread::scope(|s| {
        for shard in 0..shards {
            let total = total.clone();
            let aborted = aborted.clone();
            s.spawn(move || {
                supervise_shard(
                    family,
                    family_index,
                    opts,
                    exe,
                    shard,
                    shards,
                    &total,
                    &aborted,
                )
            });
        }
    });
    let stats = std::mem::take(&mut *total.lock().unwrap());
    FamilyResult {
        name: family.name(),
        len,
        stats,
        wall_s: t0.elapsed().as_secs_f64(),
        complete: !aborted.load(Ordering::Relaxed),
        transitions_per_case: family.transitions_per_case(),
    }
}

#[allow(clippy::too_many_arguments)]
fn supervise_shard(
    family: &dyn Family,
    family_index: usize,
    opts: &RunOpts,
    exe: &std::path::Path,
    shard: u64,
    shards: u64,
    total: &Mutex<Stats>,
    aborted: &std::sync::atomic::AtomicBool,
) {
    let mut from: u64 = 0;
    let mut skip: Vec<u64> = vec![];
    let mut slow = false;
    let mut fruitless = 0u32;
    loop {
        if fruitless >= 3 {
            eprintln!("MACHINERY: worker for shard {shard} of {} keeps dying without a culprit", family.name());
            MACHINERY_FAILED.store(true, Ordering::Relaxed);
            aborted.store(true, Ordering::Relaxed);
            return;
        }
        if aborted.load(Ordering::Relaxed) {
            return;
        }
        let mut cmd = Command::new(exe);
        cmd.arg("worker")
            .arg(&opts.check)
            .arg(&opts.tier)
            .arg(family_index.to_string())
            .arg(shard.to_string())
            .arg(shards.to_string())
            .arg(from.to_string())
            .arg(
                skip.iter()
                    .map(|x| x.to_string())
                    .collect::<Vec<_>>()
                    .join(","),
            )
            .arg(if slow { "slow" } else { "fast" })
            .arg(opts.charge_crashes_to.clone().unwrap_or_default())
            .stdout(Stdio::piped())
            .stderr(Stdio::null());
        let mut child = cmd.spawn().expect("spawn worker");
        let out = child.stdout.take().unwrap();
        let mut hang: Option<u64> = None;
        let mut last_at: Option<u64> = None;
        for line in BufReader::new(out).lines() {
            let Ok(line) = line else { break };
            let Ok(v) = serde_json::from_str::<Value>(&line) else {
                continue;
            };
            if let Some(seg) = v.get("segment") {
                let st: Stats = serde_json::from_value(seg["stats"].clone()).unwrap_or_default();
                from = seg["to"].as_u64().unwrap_or(from);
                let mut t = total.lock().unwrap();
                t.merge(st);
                if opts.charge_crashes_to.is_none() && t.undecided_count >= opts.undecided_cap {
                    aborted.store(true, Ordering::Relaxed);
                }
            } else if let Some(h) = v.get("hang") {
                hang = h.as_u64();
            } else if let Some(a) = v.get("at") {
                last_at = a.as_u64();
            }
        }
        let status = child.wait().expect("wait worker");
        if status.success() {
            return;
        }
        let bad = if let Some(h) = hang {
            slow = false;
            Some(("hang", h))
        } else if slow {
            slow = false;
            last_at.map(|i| ("abort", i))
        } else {
            // died without telling: re-run the last segment in slow mode to pin the culprit
            slow = true;
            None
        };
        if bad.is_none() {
            fruitless += 1;
        }
        if let Some((kind, idx)) = bad {
            fruitless = 0;
            skip.push(idx);
            let mut t = total.lock().unwrap();
            t.evaluations += 1;
            t.undecided_count += 1;
            if t.undecided.len() < 40 {
                t.undecided.push(Undecided {
                    kind: kind.to_string(),
                    site: format!("{:?}", status),
                    family: family.name(),
                    idx,
                    case: family.describe(idx),
                });
            }
            if opts.charge_crashes_to.is_none() && t.undecided_count >= opts.undecided_cap {
                aborted.store(true, Ordering::Relaxed);
            }
            if opts.charge_crashes_to.is_some() && t.undecided_count >= 400 {
                // plenty of evidence already; do not burn hours on a tree that hangs everywhere
                aborted.store(true, Ordering::Relaxed);
            }
        }
    }
}
