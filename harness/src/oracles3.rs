//! C07 (verbatim regions), C12 (multi-line literal values), C15 (cursor tracking).
use crate::cfg::Cfg;
use crate::oracles::{self as o, verbatim_mask, verbatim_mask_definite};
use crate::oracles2::{ml_lit, split_lines};
use crate::refscan::{self as r, Kind, TextKind};
use crate::runner::{Ctx, Family};
use pasfmt_core::prelude::Cursor;
use serde_json::{json, Value};

// ---------------------------------------------------------------------------------------------
// C07

/// x contains toggle comments and/or asm blocks (R + the independent toggle rule decide what is
/// verbatim). `prefix_len`: when Some(n), x[..n] ends at a statement boundary right before a
/// `pasfmt off` comment and the output must start with format(x[..n]) (minus its final terminator).
pub fn c07(x: &str, prefix_len: Option<usize>, cfg: &Cfg, ctx: &mut Ctx) {
    c07_eof(x, prefix_len, false, cfg, ctx)
}

/// `eof_clause`: the text is well formed and formatting is on at its end, so the output must end with
/// exactly one line terminator
pub fn c07_eof(x: &str, prefix_len: Option<usize>, eof_clause: bool, cfg: &Cfg, ctx: &mut Ctx) {
    let out = ctx.fmt(cfg, x);
    let tx = r::scan(x);
    let to = r::scan(&out);
    let case = || json!({"oracle": "c07", "input": x, "cfg": cfg, "prefix_len": prefix_len, "eof_clause": eof_clause});
    if tx.len() != to.len() {
        ctx.fail("C07", "token-count", format!("{} tokens in, {} out; output {out:?}", tx.len(), to.len()), case());
        return;
    }
    // tokens that are certainly verbatim: disabled regions and tokens lexed in asm mode. When a
    // conditional directive outside asm code could switch the asm block itself on or off
    // (`{$ifdef X} asm {$else} begin {$endif}`), R's asm mode is not the parser's: asm tokens are then
    // not judged. Conditional directives *inside* an asm block leave no such doubt.
    let mask = verbatim_mask_definite(x, &tx);
    let cond_outside_asm = tx.iter().any(|t| matches!(t.kind, Kind::Conditional(_)) && !t.asm);
    // a conditional directive that is the first or the last token of its asm source line (a group in
    // the middle of an instruction line is kept in place by the conditional-directive consolidation)
    let cond_inside_asm = (0..tx.len()).any(|i| {
        matches!(tx[i].kind, Kind::Conditional(_))
            && tx[i].asm
            && (tx[i].lead(x).contains('\n') || tx.get(i + 1).map_or(true, |n| n.lead(x).contains('\n') || !n.asm))
    });
    let lone_cr = o::lone_cr_after_line_comment(x);
    let mut verbatim_tokens = 0;
    for i in 0..tx.len() {
        let (a, b) = (&tx[i], &to[i]);
        if mask[i] {
            if cond_outside_asm && a.asm {
                continue;
            }
            verbatim_tokens += 1;
            if a.lead(x) != b.lead(&out) || a.text(x) != b.text(&out) {
                let what = if lone_cr {
                    // the reconstructor's last-resort line break after a line comment (the C08 finding)
                    "region-changed:line-comment-ended-by-lone-cr"
                } else if a.asm && cond_inside_asm {
                    "asm-line-changed:conditional-directive-at-the-edge-of-an-asm-line"
                } else if a.asm {
                    "asm-line-changed"
                } else {
                    "region-changed"
                };
                ctx.fail(
                    "C07",
                    what,
                    format!("verbatim token {i}: {:?}{:?} became {:?}{:?}; output {out:?}", a.lead(x), a.text(x), b.lead(&out), b.text(&out)),
                    case(),
                );
                return;
            }
        } else if let Kind::Keyword(_) = a.kind {
            // outside the regions code is still formatted: keywords are lower-cased
            let t = b.text(&out);
            if t.bytes().any(|c| c.is_ascii_uppercase()) {
                ctx.fail("C07", "outside-not-formatted", format!("keyword {t:?} (token {i}) outside any verbatim region kept its case; output {out:?}"), case());
                return;
            }
        }
    }
    // ... and whitespace outside is canonical
    let before = ctx.stats.violation_count;
    o::c08(x, &out, cfg, &o::C08Opts { eof_clause }, ctx);
    if ctx.stats.violation_count > before {
        // re-label: found through the C07 check
        if let Some(v) = ctx.stats.violations.last_mut() {
            if v.property == "C08" {
                v.property = "C07".into();
                v.signature = format!("outside-not-formatted:{}", v.signature);
                v.case = case();
            }
        }
        return;
    }
    if let Some(n) = prefix_len {
        let p = ctx.fmt(cfg, &x[..n]);
        let p = p.trim_end_matches(['\r', '\n']);
        if !out.starts_with(p) {
            ctx.fail(
                "C07",
                "prefix-not-formatted-as-alone",
                format!("text before the region formats alone to {p:?} but the output is {out:?}"),
                case(),
            );
            return;
        }
    }
    if verbatim_tokens > 0 {
        ctx.nontrivial();
        ctx.count("c07.with-verbatim-tokens");
    } else {
        ctx.count("c07.no-verbatim-tokens");
    }
}

pub const TOGGLE_OFF: &[&str] = &[
    "// pasfmt off",
    "//pasfmt off",
    "{pasfmt off}",
    "{ PASFMT  OFF }",
    "(* PasFmt Off *)",
    "// pasfmt off because reasons",
    "{pasfmt Off}",
    "//\tpasfmt off",
    "{\tpasfmt\toff}",
    "(*\x0cpasfmt off *)",
];
pub const TOGGLE_ON: &[&str] = &[
    "// pasfmt on",
    "//pasfmt on",
    "{pasfmt on}",
    "{ PASFMT  ON }",
    "(* PasFmt On *)",
    "// pasfmt on again",
    "{pasfmt ON}",
    "//\tpasfmt on",
    "{\tpasfmt\ton}",
    "(*\x0cpasfmt on *)",
];
/// spellings that are not toggles
pub const NON_TOGGLES: &[&str] = &[
    "// pasfmt offf",
    "{pasfmtoff}",
    "// pasfmt: off",
    "{$pasfmt off}",
    "// pas fmt off",
    "{pasfmt 0ff}",
];

// ---------------------------------------------------------------------------------------------
// C12

pub struct C12Family {
    pub max_lines: usize,
    pub cfgs: Vec<Cfg>,
    pub quotes: Vec<usize>,
    pub positions: Vec<usize>,
}

const INDENT_KINDS: usize = 7;
const CONTENTS: [&str; 5] = ["a", "a  ", "''", "'''", ""];
// (the last two are not blanks for Delphi: a literal closed behind them breaks the indentation rule)
// ("      " is where the default configuration puts a literal that follows `x :=` on its own line)
const BASES: [&str; 9] = ["", "  ", "    ", "\t", "\u{3000}", " \t", "\u{a0}\u{a0}", " \u{2003}", "      "];
const TERMS: usize = 5;
// (the last two lengthen the closing run of quotes: the first run of N or more quotes closes the literal)
const AFTERS: [&str; 5] = [";", ".Trim;", " + 'x';", "'';", "'''';"];
pub const C12_POSITIONS: usize = 11;

fn line_options() -> usize {
    INDENT_KINDS * CONTENTS.len()
}

fn lines_count(max_lines: usize) -> u64 {
    (0..=max_lines).map(|n| (line_options() as u64).pow(n as u32)).sum()
}

impl C12Family {
    fn dims(&self) -> [u64; 7] {
        [
            self.cfgs.len() as u64,
            self.quotes.len() as u64,
            BASES.len() as u64,
            TERMS as u64,
            self.positions.len() as u64,
            AFTERS.len() as u64,
            lines_count(self.max_lines),
        ]
    }

    /// builds (text, byte range of the literal, cfg)
    pub fn build(&self, idx: u64) -> (String, Cfg) {
        let d = self.dims();
        let mut rem = idx;
        let mut pick = |n: u64| {
            let v = rem % n;
            rem /= n;
            v as usize
        };
        let cfg = self.cfgs[pick(d[0])];
        let q = self.quotes[pick(d[1])];
        let base = BASES[pick(d[2])];
        let term_pat = pick(d[3]);
        let pos = self.positions[pick(d[4])];
        let after = AFTERS[pick(d[5])];
        let mut li = pick(d[6]) as u64;
        // decode the interior lines
        let mut n = 0usize;
        loop {
            let c = (line_options() as u64).pow(n as u32);
            if li < c {
                break;
            }
            li -= c;
            n += 1;
        }
        let quotes = "'".repeat(q);
        let term = |k: usize| -> &'static str {
            match term_pat {
                0 => "\n",
                1 => "\r\n",
                2 => "\r",
                3 => {
                    if k % 2 == 0 {
                        "\r"
                    } else {
                        "\n"
                    }
                }
                _ => {
                    if k % 2 == 0 {
                        "\r\n"
                    } else {
                        "\n"
                    }
                }
            }
        };
        let mut lit = String::new();
        lit.push_str(&quotes);
        lit.push_str(term(0));
        for k in 0..n {
            let opt = (li % line_options() as u64) as usize;
            li /= line_options() as u64;
            let ik = opt % INDENT_KINDS;
            let content = CONTENTS[opt / INDENT_KINDS];
            let content = if content == "'''" && q != 5 { "b" } else { content };
            let indent: String = match ik {
                0 => base.to_string(),
                1 => format!("{base}  "),
                2 => format!("{base}\t"),
                3 => {
                    // shorter than the base and not a prefix of it (only meaningful with content)
                    if base.is_empty() {
                        String::new()
                    } else {
                        base[..base.len() - base.chars().last().unwrap().len_utf8()].to_string()
                    }
                }
                4 => String::new(),
                5 => {
                    // strict prefix of the base
                    let mut cs = base.chars();
                    cs.next_back();
                    cs.as_str().to_string()
                }
                _ => {
                    // other blank kind: same length, different blank
                    base.chars().map(|c| if c == ' ' { '\t' } else { ' ' }).collect()
                }
            };
            lit.push_str(&indent);
            lit.push_str(content);
            lit.push_str(term(k + 1));
        }
        lit.push_str(base);
        lit.push_str(&quotes);
        let text = match pos {
            0 => format!("begin\n  x := {lit}{after}\nend;\n"),
            1 => format!("const c = {lit};\n"),
            2 => format!("begin\n  f({lit}, 1);\nend;\n"),
            3 => format!("begin\n  x := 'a' + {lit}{after}\nend;\n"),
            4 => format!("begin\n  x := procedure begin y := {lit}{after} z; end;\nend;\n"),
            5 => format!("begin\n  // pasfmt off\n  x := {lit}{after}\n  // pasfmt on\n  y;\nend;\n"),
            // two literals in one logical line: a rule-breaking one before the generated one ...
            7 => format!("begin\n  f('''\n    x\n   y\n    ''', {lit});\nend;\n"),
            // ... and the generated one before a misplaced valid one
            8 => format!("begin\n  f({lit}, '''\n        c\n        ''');\nend;\n"),
            // in a routine header (default value of a parameter; message of a hint directive)
            9 => format!("procedure P(a: string = {lit});\nbegin\nend;\n"),
            10 => format!("type T = class\n  procedure M; deprecated {lit};\nend;\n"),
            // the opening quotes start their own line, indented like the closing quotes
            _ => format!("begin\n  x :=\n{base}{lit}{after}\nend;\n"),
        };
        (text, cfg)
    }
}

impl Family for C12Family {
    fn name(&self) -> String {
        format!(
            "c12:literals(lines<={},quotes={:?},bases=9,terminator-patterns=5,positions={:?},afters=3)x{}cfg",
            self.max_lines,
            self.quotes,
            self.positions,
            self.cfgs.len()
        )
    }
    fn len(&self) -> u64 {
        self.dims().iter().product()
    }
    fn run(&self, idx: u64, ctx: &mut Ctx) {
        let (x, cfg) = self.build(idx);
        c12(&x, &cfg, ctx);
    }
    fn describe(&self, idx: u64) -> Value {
        let (x, cfg) = self.build(idx);
        json!({"input": x, "cfg": cfg})
    }
    fn transitions_per_case(&self) -> u64 {
        self.max_lines as u64 + 6
    }
}

/// every multi-line literal of x (as R sees it) must keep its value / bytes as the property says
pub fn c12(x: &str, cfg: &Cfg, ctx: &mut Ctx) {
    let out = ctx.fmt(cfg, x);
    let tx = r::scan(x);
    let to = r::scan(&out);
    let case = || json!({"oracle": "c12", "input": x, "cfg": cfg});
    if tx.len() != to.len() {
        ctx.fail("C12", "token-count", format!("{} tokens in, {} out; output {out:?}", tx.len(), to.len()), case());
        return;
    }
    let mask = verbatim_mask(x, &tx);
    let mut any = false;
    for i in 0..tx.len() {
        if tx[i].kind != Kind::Text(TextKind::MultiLine) {
            continue;
        }
        any = true;
        let a = tx[i].text(x);
        let b = to[i].text(&out);
        let la = ml_lit(a);
        let must_be_verbatim = mask[i] || !cfg.fms || la.value.is_none();
        if must_be_verbatim {
            ctx.count("c12.verbatim-literal");
            if a != b {
                let why = if mask[i] {
                    "in-verbatim-region"
                } else if !cfg.fms {
                    "format_multiline_strings-off"
                } else {
                    "indentation-rule-violated"
                };
                ctx.fail("C12", &format!("literal-not-verbatim:{why}"), format!("{a:?} became {b:?}"), case());
                return;
            }
            continue;
        }
        ctx.count("c12.rewritten-literal");
        let lb = ml_lit(b);
        if lb.value != la.value || lb.quotes != la.quotes {
            ctx.fail("C12", "value-changed", format!("value {:?} became {:?}; literal {a:?} became {b:?}", la.value, lb.value), case());
            return;
        }
        // indentation: like the line holding the opening quotes
        let before = &out[..to[i].start];
        let line_start = before.rfind('\n').map(|p| p + 1).unwrap_or(0);
        let open_indent: String = out[line_start..].chars().take_while(|c| r::is_blank(*c) && *c != '\n' && *c != '\r').collect();
        if lb.base != open_indent {
            ctx.fail("C12", "closing-quotes-indentation", format!("closing quotes indented {:?}, opening line {:?}; literal {b:?}; output {out:?}", lb.base, open_indent), case());
            return;
        }
        let vals = lb.value.as_ref().unwrap();
        for (k, (content, term)) in lb.lines[..lb.lines.len() - 1].iter().enumerate() {
            if term != cfg.nl() {
                ctx.fail("C12", "interior-terminator", format!("line {k} of {b:?} ends with {term:?}"), case());
                return;
            }
            if k >= 1 {
                let v = &vals[k - 1];
                let expect = if v.is_empty() { String::new() } else { format!("{open_indent}{v}") };
                if *content != expect {
                    ctx.fail("C12", "interior-line-indentation", format!("interior line {k} is {content:?}, expected {expect:?}; literal {b:?}"), case());
                    return;
                }
            }
        }
        let _ = split_lines;
    }
    if any {
        ctx.nontrivial();
    }
}

// ---------------------------------------------------------------------------------------------
// C15

pub fn cursor_set(x: &str) -> Vec<u32> {
    let mut v: Vec<u32> = (0..=x.len()).filter(|i| x.is_char_boundary(*i)).map(|i| i as u32).collect();
    v.push(x.len() as u32 + 1);
    v.push(x.len() as u32 + 1000);
    v.push(u32::MAX);
    v
}

pub struct C15Opts {
    pub singles: bool,
    pub pairs: bool,
}

pub fn c15(x: &str, cfg: &Cfg, opts: &C15Opts, ctx: &mut Ctx) {
    let plain = ctx.fmt(cfg, x);
    let cs = cursor_set(x);
    let case = |cur: &[u32]| json!({"oracle": "c15", "input": x, "cfg": cfg, "cursors": cur});
    let tx = r::scan(x);
    let to = r::scan(&plain);
    // "the same token in the output" is only defined when the output re-scans to the same kinds of
    // tokens (on garbage input neighbouring tokens may glue into different ones)
    let same_count = tx.len() == to.len() && tx.iter().zip(&to).all(|(a, b)| a.kind == b.kind || (a.is_comment() && b.is_comment()));
    let mask = verbatim_mask(x, &tx);
    // expected position of a cursor, when the property determines it
    let expected = |c: u32| -> Option<u32> {
        let c = c as usize;
        if c > x.len() {
            return Some(plain.len() as u32);
        }
        if !same_count {
            return None;
        }
        for (i, t) in tx.iter().enumerate() {
            if t.kind == Kind::Eof {
                break;
            }
            if c > t.start && c <= t.end {
                let unchanged = t.text(x) == to[i].text(&plain);
                if unchanged {
                    return Some((to[i].start + (c - t.start)) as u32);
                }
                return None;
            }
        }
        let _ = &mask;
        None
    };
    let mut check = |list: &[u32], ctx: &mut Ctx| -> Option<Vec<u32>> {
        let mut cur: Vec<Cursor> = list.iter().map(|c| Cursor(*c)).collect();
        let out = ctx.fmt_cursors(cfg, x, &mut cur);
        if out != plain {
            ctx.fail("C15", "cursors-change-output", format!("output with cursors {list:?} differs: {}", crate::oracles2::first_diff_line(&plain, &out)), case(list));
            return None;
        }
        let res: Vec<u32> = cur.iter().map(|c| c.0).collect();
        for (k, &c) in res.iter().enumerate() {
            if c as usize > out.len() || !out.is_char_boundary(c as usize) {
                ctx.fail("C15", "cursor-out-of-range-or-inside-char", format!("cursor {} reported at {c}, output length {}", list[k], out.len()), case(&[list[k]]));
                return None;
            }
            if let Some(e) = expected(list[k]) {
                if e != c {
                    let sig = if list[k] as usize > x.len() { "cursor-past-end-not-at-end" } else { "cursor-moved-inside-unchanged-token" };
                    ctx.fail("C15", sig, format!("cursor {} reported at {c}, expected {e}; output {out:?}", list[k]), case(&[list[k]]));
                    return None;
                }
            }
        }
        Some(res)
    };
    let all = match check(&cs, ctx) {
        Some(a) => a,
        None => return,
    };
    ctx.nontrivial();
    if opts.singles {
        for (k, &c) in cs.iter().enumerate() {
            ctx.sub_eval();
            ctx.nontrivial();
            match check(&[c], ctx) {
                None => return,
                Some(r1) => {
                    if r1[0] != all[k] {
                        ctx.fail("C15", "cursor-depends-on-other-cursors", format!("cursor {c} alone -> {}, in the full list -> {}", r1[0], all[k]), case(&[c]));
                        return;
                    }
                }
            }
        }
    }
    if opts.pairs {
        for a in 0..cs.len() {
            for b in 0..cs.len() {
                if a == b {
                    continue;
                }
                ctx.sub_eval();
                ctx.nontrivial();
                match check(&[cs[a], cs[b]], ctx) {
                    None => return,
                    Some(r2) => {
                        if r2[0] != all[a] || r2[1] != all[b] {
                            ctx.fail("C15", "cursor-depends-on-other-cursors", format!("cursors [{}, {}] -> {:?}, in the full list -> [{}, {}]", cs[a], cs[b], r2, all[a], all[b]), case(&[cs[a], cs[b]]));
                            return;
                        }
                    }
                }
            }
        }
    }
}
