//! Registry: which families of cases make up each check at each tier, and replay dispatch.
use crate::alphabet::{Chars, Soup, CONTEXTS, GAPS3, GAPS5, SIGMA};
use crate::cfg::{self, Cfg, C_QUICK};
use crate::grammar::Grammar;
use crate::oracles as o;
use crate::oracles2 as o2;
use crate::progs::{self, pf, sf, RelayoutOpts, Seed, VariantOpts};
use crate::runner::{Ctx, Family};
use std::sync::Arc;
use serde_json::{json, Value};

pub trait TextSource: Send + Sync {
    fn name(&self) -> String;
    fn len(&self) -> u64;
    fn get(&self, idx: u64, buf: &mut String);
    fn edges(&self) -> u64 {
        1
    }
}

impl TextSource for Soup {
    fn name(&self) -> String {
        format!(
            "soup(k={},|Σ|={},gaps={},contexts={})",
            self.k,
            self.sigma.len(),
            self.gaps.len(),
            self.contexts.len()
        )
    }
    fn len(&self) -> u64 {
        Soup::len(self)
    }
    fn get(&self, idx: u64, buf: &mut String) {
        Soup::get(self, idx, buf);
    }
    fn edges(&self) -> u64 {
        self.k as u64
    }
}

impl TextSource for Chars {
    fn name(&self) -> String {
        format!("chars(n={},|Γ|={})", self.n, crate::alphabet::GAMMA.len())
    }
    fn len(&self) -> u64 {
        Chars::len(self)
    }
    fn get(&self, idx: u64, buf: &mut String) {
        Chars::get(self, idx, buf);
    }
    fn edges(&self) -> u64 {
        self.n as u64
    }
}

pub struct Texts {
    pub name: String,
    pub items: Vec<String>,
}
impl TextSource for Texts {
    fn name(&self) -> String {
        format!("{}({})", self.name, self.items.len())
    }
    fn len(&self) -> u64 {
        self.items.len() as u64
    }
    fn get(&self, idx: u64, buf: &mut String) {
        buf.clear();
        buf.push_str(&self.items[idx as usize]);
    }
}

pub type TextOracle = Box<dyn Fn(&str, &Cfg, &mut Ctx) + Send + Sync>;

/// texts × configurations, oracle(text, cfg)
pub struct TextFamily {
    pub label: String,
    pub src: Box<dyn TextSource>,
    pub cfgs: Vec<Cfg>,
    pub oracle: TextOracle,
    pub horizon_ms: u64,
}

impl Family for TextFamily {
    fn name(&self) -> String {
        format!("{}:{}x{}cfg", self.label, self.src.name(), self.cfgs.len())
    }
    fn len(&self) -> u64 {
        self.src.len() * self.cfgs.len() as u64
    }
    fn run(&self, idx: u64, ctx: &mut Ctx) {
        let nc = self.cfgs.len() as u64;
        let mut buf = String::new();
        self.src.get(idx / nc, &mut buf);
        (self.oracle)(&buf, &self.cfgs[(idx % nc) as usize], ctx);
    }
    fn describe(&self, idx: u64) -> Value {
        let nc = self.cfgs.len() as u64;
        let mut buf = String::new();
        self.src.get(idx / nc, &mut buf);
        json!({"input": buf, "cfg": self.cfgs[(idx % nc) as usize]})
    }
    fn horizon_ms(&self) -> u64 {
        self.horizon_ms
    }
    fn transitions_per_case(&self) -> u64 {
        self.src.edges() + 1
    }
}

fn tf(label: &str, src: impl TextSource + 'static, cfgs: &[Cfg], oracle: TextOracle) -> Box<dyn Family> {
    Box::new(TextFamily {
        label: label.to_string(),
        src: Box::new(src),
        cfgs: cfgs.to_vec(),
        oracle,
        horizon_ms: 1500,
    })
}

fn soup(k: u32, gaps: &'static [&'static str], contexts: &'static [&'static str]) -> Soup {
    Soup {
        k,
        sigma: SIGMA,
        gaps,
        contexts,
    }
}

pub fn crashes_charged_to(check: &str) -> Option<String> {
    if check == "C04" {
        Some("C04".to_string())
    } else {
        None
    }
}

fn or_c01() -> TextOracle {
    Box::new(|x, c, ctx| {
        let out = ctx.fmt(c, x);
        o::c01(x, &out, c, ctx);
    })
}
fn or_c08(eof_clause: bool) -> TextOracle {
    Box::new(move |x, c, ctx| {
        let out = ctx.fmt(c, x);
        o::c08(x, &out, c, &o::C08Opts { eof_clause }, ctx);
    })
}
fn or_c13() -> TextOracle {
    Box::new(|x, _c, ctx| o::c13(x, ctx))
}
fn or_c14(well_formed: bool) -> TextOracle {
    Box::new(move |x, _c, ctx| o::c14(x, &o::C14Opts { well_formed }, ctx))
}
fn or_c04() -> TextOracle {
    Box::new(|x, c, ctx| {
        let out = ctx.fmt(c, x);
        if out != x {
            ctx.nontrivial();
        }
    })
}


const W_QUICK: [u32; 6] = [16, 24, 30, 60, 120, 200];
const W_FULL: [u32; 13] = [10, 16, 20, 24, 30, 40, 50, 60, 80, 100, 120, 160, 200];

fn wf_seeds() -> Arc<Vec<Seed>> {
    Arc::new(progs::load_seeds().into_iter().filter(|s| s.well_formed).collect())
}
fn all_seeds() -> Arc<Vec<Seed>> {
    Arc::new(progs::load_seeds())
}

fn vopts(comments: bool, directives: bool, gap_flips: bool) -> VariantOpts {
    VariantOpts { comments, directives, gap_flips }
}

/// run `f(text)` on every variant of a program, counting each as an evaluation
fn prog_variants(
    label: &str,
    g: &Arc<Grammar>,
    d: usize,
    cfgs: &[Cfg],
    vo: fn() -> VariantOpts,
    f: fn(&str, &Cfg, &mut Ctx),
) -> Box<dyn Family> {
    pf(
        label,
        g,
        d,
        cfgs,
        Box::new(move |g, toks, c, ctx| {
            let mut first = true;
            progs::for_variants(g, toks, &vo(), |t, _kind| {
                if !first {
                    ctx.sub_eval();
                }
                first = false;
                f(t, c, ctx);
            });
        }),
    )
}

fn f_c02(x: &str, c: &Cfg, ctx: &mut Ctx) {
    let out = ctx.fmt(c, x);
    o2::c02(x, &out, c, ctx);
}
fn f_c03(x: &str, c: &Cfg, ctx: &mut Ctx) {
    o2::c03(x, c, ctx);
}
fn f_c01(x: &str, c: &Cfg, ctx: &mut Ctx) {
    let out = ctx.fmt(c, x);
    o::c01(x, &out, c, ctx);
}
fn f_c08_eof(x: &str, c: &Cfg, ctx: &mut Ctx) {
    let out = ctx.fmt(c, x);
    o::c08(x, &out, c, &o::C08Opts { eof_clause: true }, ctx);
}
fn f_c14_wf(x: &str, _c: &Cfg, ctx: &mut Ctx) {
    o::c14(x, &o::C14Opts { well_formed: true }, ctx);
}
fn f_c13(x: &str, c: &Cfg, ctx: &mut Ctx) {
    o::c13(x, ctx);
    let out = ctx.fmt(c, x);
    o::c13(&out, ctx);
}
fn f_c09(x: &str, c: &Cfg, ctx: &mut Ctx) {
    o2::c09(x, c, ctx);
}
fn vo_base() -> VariantOpts {
    vopts(false, false, false)
}
fn vo_flips() -> VariantOpts {
    vopts(false, false, true)
}
fn vo_all() -> VariantOpts {
    vopts(true, true, true)
}
fn vo_cd() -> VariantOpts {
    vopts(true, true, false)
}

fn seed_texts(label: &str, seeds: &Arc<Vec<Seed>>, cfgs: &[Cfg], f: fn(&str, &Cfg, &mut Ctx)) -> Box<dyn Family> {
    sf(label, seeds, cfgs, Box::new(move |s, c, ctx| f(&s.text, c, ctx)))
}

fn c05_family(g: &Arc<Grammar>, d: usize, cfgs: &[Cfg], flips: bool) -> Box<dyn Family> {
    pf(
        "c05",
        g,
        d,
        cfgs,
        Box::new(move |_g, toks, c, ctx| {
            use crate::layout::{self, Base};
            let mut first = true;
            let mut run = |gaps: &Vec<String>, ctx: &mut Ctx| {
                if !first {
                    ctx.sub_eval();
                }
                first = false;
                let x = layout::render(toks, gaps);
                let out = ctx.fmt(c, &x);
                if o2::c02(&x, &out, c, ctx) {
                    o2::c05(&x, toks, &out, c, ctx);
                }
            };
            for b in [Base::L0, Base::L1, Base::L2] {
                run(&layout::base_gaps(toks, b), ctx);
            }
            if flips {
                let frozen = layout::frozen_gaps(toks);
                let l1 = layout::base_gaps(toks, Base::L1);
                for i in 1..toks.len() {
                    if frozen[i] || toks[i].hard_nl {
                        continue;
                    }
                    let mut gaps = l1.clone();
                    gaps[i] = "\n".to_string();
                    run(&gaps, ctx);
                }
            }
        }),
    )
}

fn c06_prog_family(g: &Arc<Grammar>, d: usize, cfgs: &[Cfg], opts: fn() -> RelayoutOpts) -> Box<dyn Family> {
    pf(
        "c06",
        g,
        d,
        cfgs,
        Box::new(move |_g, toks, c, ctx| {
            let texts = progs::base_texts(toks);
            // L0, L1, L2 must agree with each other ...
            let o0 = ctx.fmt(c, &texts[0]);
            for t in &texts[1..] {
                ctx.sub_eval();
                ctx.nontrivial();
                let o = ctx.fmt(c, t);
                if o != o0 {
                    ctx.fail(
                        "C06",
                        "layout-dependent-output",
                        o2::first_diff_line(&o0, &o),
                        json!({"oracle": "c06", "input": texts[0], "input2": t, "cfg": c}),
                    );
                }
            }
            // ... and every bounded re-layout of L0 with L0
            progs::c06_relayouts(&texts[0], c, &opts(), ctx);
        }),
    )
}
fn ro_singles() -> RelayoutOpts {
    RelayoutOpts { singles: true, pairs: false, all_assignments_upto: 0 }
}
fn ro_deep() -> RelayoutOpts {
    RelayoutOpts { singles: true, pairs: true, all_assignments_upto: 12 }
}
fn ro_mid() -> RelayoutOpts {
    RelayoutOpts { singles: true, pairs: false, all_assignments_upto: 10 }
}

fn c09_variants(x: &str, c: &Cfg, pairs: bool, ctx: &mut Ctx) {
    // x with all LF, then every single (and pair of) terminator(s) flipped to CRLF
    let lf = o2::to_lf(x);
    o2::c09(&lf, c, ctx);
    if o2::has_lone_cr(&lf) {
        return;
    }
    let pos: Vec<usize> = lf.match_indices('\n').map(|(i, _)| i).collect();
    if pos.is_empty() {
        return;
    }
    ctx.sub_eval();
    o2::c09(&o2::to_crlf(&lf), c, ctx);
    let flip = |which: &[usize]| {
        let mut s = String::with_capacity(lf.len() + 4);
        let mut last = 0;
        for &w in which {
            s.push_str(&lf[last..pos[w]]);
            s.push_str("\r\n");
            last = pos[w] + 1;
        }
        s.push_str(&lf[last..]);
        s
    };
    if pos.len() <= 40 {
        for a in 0..pos.len() {
            ctx.sub_eval();
            o2::c09(&flip(&[a]), c, ctx);
        }
    }
    if pairs && pos.len() <= 8 {
        for a in 0..pos.len() {
            for b in (a + 1)..pos.len() {
                ctx.sub_eval();
                o2::c09(&flip(&[a, b]), c, ctx);
            }
        }
    }
}

pub fn families(check: &str, tier: &str) -> Vec<Box<dyn Family>> {
    let quick = tier == "quick";
    let one = [cfg::DEFAULT];
    let full = cfg::c_full();
    let g = |d: usize| Arc::new(Grammar::load(d));
    match check {
        "C01" => {
            if quick {
                vec![
                    tf("c01", soup(2, GAPS5, CONTEXTS), &C_QUICK, or_c01()),
                    tf("c01", Chars { n: 3 }, &C_QUICK[..2], or_c01()),
                    prog_variants("c01", &g(1), 1, &C_QUICK[..2], vo_cd, f_c01),
                ]
            } else {
                vec![
                    tf("c01", soup(2, GAPS5, CONTEXTS), &full, or_c01()),
                    tf("c01", soup(3, GAPS3, CONTEXTS), &C_QUICK[..2], or_c01()),
                    tf("c01", Chars { n: 4 }, &C_QUICK[..2], or_c01()),
                    prog_variants("c01", &g(2), 2, &C_QUICK, vo_cd, f_c01),
                    seed_texts("c01", &all_seeds(), &full, f_c01),
                ]
            }
        }
        "C02" => {
            if quick {
                vec![
                    prog_variants("c02", &g(2), 2, &C_QUICK, vo_base, f_c02),
                    prog_variants("c02", &g(1), 1, &C_QUICK[..3], vo_all, f_c02),
                    seed_texts("c02", &wf_seeds(), &C_QUICK, f_c02),
                ]
            } else {
                vec![
                    prog_variants("c02", &g(3), 3, &C_QUICK[..3], vo_base, f_c02),
                    prog_variants("c02", &g(2), 2, &C_QUICK, vo_all, f_c02),
                    prog_variants("c02", &g(2), 2, &full, vo_base, f_c02),
                    seed_texts("c02", &wf_seeds(), &full, f_c02),
                ]
            }
        }
        "C03" => {
            if quick {
                vec![
                    prog_variants("c03", &g(2), 2, &C_QUICK, vo_base, f_c03),
                    prog_variants("c03", &g(1), 1, &C_QUICK[..3], vo_all, f_c03),
                    seed_texts("c03", &wf_seeds(), &C_QUICK, f_c03),
                ]
            } else {
                vec![
                    prog_variants("c03", &g(3), 3, &C_QUICK[..3], vo_base, f_c03),
                    prog_variants("c03", &g(2), 2, &C_QUICK, vo_all, f_c03),
                    prog_variants("c03", &g(2), 2, &full, vo_base, f_c03),
                    seed_texts("c03", &wf_seeds(), &full, f_c03),
                ]
            }
        }
        "C04" => {
            if quick {
                vec![
                    tf("c04", soup(2, GAPS5, CONTEXTS), &C_QUICK[..2], or_c04()),
                    tf("c04", soup(3, &[" "], &["%"]), &one, or_c04()),
                ]
            } else {
                vec![
                    tf("c04", soup(3, GAPS3, CONTEXTS), &C_QUICK[..3], or_c04()),
                    tf("c04", Chars { n: 4 }, &C_QUICK[..2], or_c04()),
                ]
            }
        }
        "C05" => {
            // wrap_column >= 30: at narrower widths the headers that open blocks are themselves
            // broken over several lines and "the line that opens the block" stops being well defined
            let c05q: Vec<Cfg> = C_QUICK.iter().copied().filter(|c| c.wrap >= 30).collect();
            let c05f: Vec<Cfg> = full.iter().copied().filter(|c| c.wrap >= 30).collect();
            if quick {
                vec![c05_family(&g(2), 2, &c05q, false)]
            } else {
                vec![
                    c05_family(&g(3), 3, &c05q[..3], false),
                    c05_family(&g(2), 2, &c05f, true),
                ]
            }
        }
        "C06" => {
            if quick {
                vec![
                    c06_prog_family(&g(2), 2, &C_QUICK[..3], ro_singles),
                    sf("c06", &wf_seeds(), &C_QUICK[..2], Box::new(|s, c, ctx| progs::c06_relayouts(&s.text, c, &ro_singles(), ctx))),
                ]
            } else {
                vec![
                    c06_prog_family(&g(2), 2, &C_QUICK, ro_deep),
                    c06_prog_family(&g(3), 3, &C_QUICK[..2], ro_singles),
                    sf("c06", &wf_seeds(), &C_QUICK, Box::new(|s, c, ctx| progs::c06_relayouts(&s.text, c, &ro_mid(), ctx))),
                ]
            }
        }
        "C08" => {
            if quick {
                vec![
                    tf("c08", soup(2, GAPS5, CONTEXTS), &C_QUICK, or_c08(false)),
                    tf("c08", Chars { n: 3 }, &C_QUICK[..2], or_c08(false)),
                    prog_variants("c08eof", &g(2), 2, &C_QUICK, vo_base, f_c08_eof),
                    seed_texts("c08eof", &wf_seeds(), &C_QUICK, f_c08_eof),
                ]
            } else {
                vec![
                    tf("c08", soup(2, GAPS5, CONTEXTS), &full, or_c08(false)),
                    tf("c08", soup(3, GAPS3, CONTEXTS), &C_QUICK[..2], or_c08(false)),
                    tf("c08", Chars { n: 4 }, &C_QUICK[..2], or_c08(false)),
                    prog_variants("c08eof", &g(2), 2, &full, vo_all, f_c08_eof),
                    prog_variants("c08eof", &g(3), 3, &C_QUICK[..2], vo_base, f_c08_eof),
                    seed_texts("c08eof", &wf_seeds(), &full, f_c08_eof),
                ]
            }
        }
        "C09" => {
            let others: Vec<Cfg> = C_QUICK[..4].to_vec();
            if quick {
                vec![
                    tf("c09", soup(2, GAPS5, CONTEXTS), &others[..2], Box::new(|x, c, ctx| o2::c09(x, c, ctx))),
                    tf("c09", Chars { n: 3 }, &others[..2], Box::new(|x, c, ctx| o2::c09(x, c, ctx))),
                    pf("c09", &g(1), 1, &others, Box::new(|_g, toks, c, ctx| {
                        let t = progs::base_texts(toks);
                        c09_variants(&t[0], c, true, ctx);
                        ctx.sub_eval();
                        c09_variants(&t[2], c, false, ctx);
                    })),
                    sf("c09", &all_seeds(), &others[..2], Box::new(|s, c, ctx| c09_variants(&s.text, c, false, ctx))),
                ]
            } else {
                vec![
                    tf("c09", soup(2, GAPS5, CONTEXTS), &others, Box::new(|x, c, ctx| o2::c09(x, c, ctx))),
                    tf("c09", Chars { n: 4 }, &others[..2], Box::new(|x, c, ctx| o2::c09(x, c, ctx))),
                    pf("c09", &g(2), 2, &others, Box::new(|_g, toks, c, ctx| {
                        let t = progs::base_texts(toks);
                        c09_variants(&t[0], c, true, ctx);
                        ctx.sub_eval();
                        c09_variants(&t[2], c, false, ctx);
                    })),
                    sf("c09", &all_seeds(), &others, Box::new(|s, c, ctx| c09_variants(&s.text, c, true, ctx))),
                ]
            }
        }
        "C10" => {
            let tws: &'static [u8] = if quick { &[0, 1, 2, 4, 8, 85] } else { &[0, 1, 2, 3, 4, 8, 16, 17, 85, 127, 128, 255] };
            let cis: &'static [u8] = if quick { &[0, 1, 2, 3] } else { &[0, 1, 2, 3, 15, 16, 127, 255] };
            let bases = [cfg::DEFAULT, cfg::DEFAULT.with(|c| { c.begin = cfg::BeginStyle::AlwaysWrap; c.le = cfg::Le::Crlf; })];
            let body = move |x: &str, c: &Cfg, ctx: &mut Ctx| {
                let mut first = true;
                for &tw in tws {
                    for &ci in cis {
                        if !first { ctx.sub_eval(); }
                        first = false;
                        o2::c10_pair(x, tw, ci, c, ctx);
                    }
                }
                ctx.sub_eval();
                o2::c10_linear(x, cis, c, ctx);
            };
            let d = if quick { 1 } else { 2 };
            vec![
                pf("c10", &g(d), d, &bases, Box::new(move |_g, toks, c, ctx| {
                    let t = progs::base_texts(toks);
                    body(&t[1], c, ctx);
                })),
                sf("c10", &wf_seeds(), &bases[..if quick { 1 } else { 2 }], Box::new(move |s, c, ctx| body(&s.text, c, ctx))),
            ]
        }
        "C11" => {
            let ws: &'static [u32] = if quick { &W_QUICK } else { &W_FULL };
            let bases = [
                cfg::DEFAULT,
                cfg::DEFAULT.with(|c| c.begin = cfg::BeginStyle::AlwaysWrap),
                cfg::DEFAULT.with(|c| { c.tw = 4; c.ci = 1; }),
                cfg::DEFAULT.with(|c| { c.begin = cfg::BeginStyle::AlwaysWrap; c.tw = 4; c.ci = 1; }),
            ];
            let d = if quick { 2 } else { 3 };
            let nb = if quick { 2 } else { 4 };
            vec![
                pf("c11", &g(d), d, &bases[..if quick { 2 } else { 2 }], Box::new(move |_g, toks, c, ctx| {
                    let t = progs::base_texts(toks);
                    o2::c11(&t[1], ws, c, ctx);
                })),
                sf("c11", &wf_seeds(), &bases[..nb], Box::new(move |s, c, ctx| o2::c11(&s.text, ws, c, ctx))),
            ]
        }
        "C13" => {
            if quick {
                vec![
                    tf("c13", Chars { n: 4 }, &one, or_c13()),
                    tf("c13", soup(2, GAPS5, CONTEXTS), &one, or_c13()),
                    prog_variants("c13", &g(1), 1, &one, vo_cd, f_c13),
                    seed_texts("c13", &all_seeds(), &one, f_c13),
                ]
            } else {
                vec![
                    tf("c13", Chars { n: 5 }, &one, or_c13()),
                    tf("c13", soup(2, GAPS5, CONTEXTS), &one, or_c13()),
                    tf("c13", soup(3, GAPS3, &["%", "asm % end"]), &one, or_c13()),
                    prog_variants("c13", &g(2), 2, &one, vo_cd, f_c13),
                    seed_texts("c13", &all_seeds(), &C_QUICK, f_c13),
                ]
            }
        }
        "C14" => {
            if quick {
                vec![
                    tf("c14", soup(2, GAPS5, CONTEXTS), &one, or_c14(false)),
                    tf("c14", Chars { n: 3 }, &one, or_c14(false)),
                    prog_variants("c14wf", &g(2), 2, &one, vo_base, f_c14_wf),
                    prog_variants("c14wf", &g(1), 1, &one, vo_all, f_c14_wf),
                    seed_texts("c14wf", &wf_seeds(), &one, f_c14_wf),
                ]
            } else {
                vec![
                    tf("c14", soup(3, GAPS3, CONTEXTS), &one, or_c14(false)),
                    tf("c14", Chars { n: 4 }, &one, or_c14(false)),
                    prog_variants("c14wf", &g(3), 3, &one, vo_base, f_c14_wf),
                    prog_variants("c14wf", &g(2), 2, &one, vo_all, f_c14_wf),
                    seed_texts("c14wf", &wf_seeds(), &one, f_c14_wf),
                ]
            }
        }
        _ => vec![],
    }
}

fn cfg_of(case: &Value) -> Cfg {
    serde_json::from_value(case["cfg"].clone()).unwrap_or(cfg::DEFAULT)
}

/// replays one explicit case; returns false when the oracle name is unknown
pub fn replay(case: &Value, ctx: &mut Ctx) -> bool {
    let input = case["input"].as_str().unwrap_or("").to_string();
    let c = cfg_of(case);
    match case["oracle"].as_str().unwrap_or("") {
        "c01" => {
            let out = ctx.fmt(&c, &input);
            o::c01(&input, &out, &c, ctx);
        }
        "c04" => {
            let _ = ctx.fmt(&c, &input);
        }
        "c08" => {
            let out = ctx.fmt(&c, &input);
            let eof = case["eof_clause"].as_bool().unwrap_or(false);
            o::c08(&input, &out, &c, &o::C08Opts { eof_clause: eof }, ctx);
        }
        "c13" => o::c13(&input, ctx),
        "c02" => {
            let out = ctx.fmt(&c, &input);
            o2::c02(&input, &out, &c, ctx);
        }
        "c03" => o2::c03(&input, &c, ctx),
        "c06" => {
            let input2 = case["input2"].as_str().unwrap_or("").to_string();
            o2::c06(&input, &input2, &c, ctx);
        }
        "c09" => o2::c09(&input, &c, ctx),
        "c10" => o2::c10_pair(
            &input,
            case["tw"].as_u64().unwrap_or(2) as u8,
            case["ci"].as_u64().unwrap_or(2) as u8,
            &c,
            ctx,
        ),
        "c10_linear" => o2::c10_linear(&input, &[case["ci"].as_u64().unwrap_or(2) as u8], &c, ctx),
        "c11" => o2::c11(
            &input,
            &[case["w1"].as_u64().unwrap_or(30) as u32, case["w2"].as_u64().unwrap_or(120) as u32],
            &c,
            ctx,
        ),
        "c14" => o::c14(
            &input,
            &o::C14Opts {
                well_formed: case["well_formed"].as_bool().unwrap_or(false),
            },
            ctx,
        ),
        _ => return false,
    }
    true
}
