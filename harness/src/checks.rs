//! Registry: which families of cases make up each check at each tier, and replay dispatch.
use crate::alphabet::{Chars, LongTokens, Separators, Skeletons, Soup, TokenTails, Words, CONTEXTS, GAPS3, GAPS5, GAPS8, SIGMA, SIGMA_SMALL};
use crate::cfg::{self, Cfg, C_QUICK};
use crate::grammar::Grammar;
use crate::oracles as o;
use crate::oracles2 as o2;
use crate::oracles3 as o3;
use crate::progs::{self, pf, sf, RelayoutOpts, Seed, VariantOpts};
use crate::runner::{Ctx, Family};
use std::sync::Arc;
use serde_json::{json, Value};

pub trait TextSource: Send + Sync {
    fn name(&self) -> String;
    fn len(&self) -> u64;
    fn get(&self, idx: u64, buf: &mut String);
    fn edges(&self) -> u64 {
        1
    }
}

impl TextSource for Soup {
    fn name(&self) -> String {
        format!(
            "soup(k={},|Σ|={},gaps={},contexts={})",
            self.k,
            self.sigma.len(),
            self.gaps.len(),
            self.contexts.len()
        )
    }
    fn len(&self) -> u64 {
        Soup::len(self)
    }
    fn get(&self, idx: u64, buf: &mut String) {
        Soup::get(self, idx, buf);
    }
    fn edges(&self) -> u64 {
        self.k as u64
    }
}

impl TextSource for Chars {
    fn name(&self) -> String {
        format!("chars(n={},|Γ|={})", self.n, crate::alphabet::GAMMA.len())
    }
    fn len(&self) -> u64 {
        Chars::len(self)
    }
    fn get(&self, idx: u64, buf: &mut String) {
        Chars::get(self, idx, buf);
    }
    fn edges(&self) -> u64 {
        self.n as u64
    }
}

impl TextSource for Words {
    fn name(&self) -> String {
        format!("words(len<={},align<={},delims={},specials={})", self.max_len, self.max_align, crate::alphabet::WORD_DELIMS.len(), crate::alphabet::WORD_SPECIALS.len())
    }
    fn len(&self) -> u64 {
        Words::len(self)
    }
    fn get(&self, idx: u64, buf: &mut String) {
        Words::get(self, idx, buf);
    }
}

/// the multi-line literal shapes of C12 as plain texts (for the other properties)
pub struct LitTexts(pub o3::C12Family);
impl TextSource for LitTexts {
    fn name(&self) -> String {
        format!("ml-literals(lines<={})", self.0.max_lines)
    }
    fn len(&self) -> u64 {
        use crate::runner::Family;
        self.0.len()
    }
    fn get(&self, idx: u64, buf: &mut String) {
        *buf = self.0.build(idx).0;
    }
}
fn large_texts() -> Texts {
    Texts { name: "large-inputs".into(), items: crate::alphabet::large_inputs() }
}
/// Two multi-line literals in one logical line. The text is first formatted with the default
/// configuration (so that the *second* literal sits exactly where the formatter wants it) and then
/// the first literal is moved to another indentation: only the first one needs re-indenting.
pub struct TwoLits;
const TL_TAILS: [&str; 6] = ["", ".Trim", ".B(11 + 11 + 11)", ".Format([aaaaaaaa, bbbbbbbb, cccccccc])", ".Contains(aaaaaaaa) or bbbbbbbb or cccccccc", ".Length div 2 mod 3 in [aaaaaaaa .. bbbbbbbb]"];
const TL_JOINS: [(&str, &str, &str); 3] = [("x := ", " + ", ";"), ("f(", ", ", ");"), ("x := y + ", " + 'z' + ", ".Trim;")];
// (the last four are one column off the places where the formatter puts the literal at the two nesting levels)
const TL_BASES: [&str; 9] = ["                                        ", "", "\t", "            ", "  ", "     ", "       ", "         ", "           "];
const TL_BODIES: [&str; 3] = ["a", "a\n%b", "\n%a  "];
impl TwoLits {
    fn build(idx: u64) -> String {
        let mut r = idx;
        let mut pick = |n: usize| {
            let v = (r % n as u64) as usize;
            r /= n as u64;
            v
        };
        let tail = TL_TAILS[pick(TL_TAILS.len())];
        let (head, join, close) = TL_JOINS[pick(TL_JOINS.len())];
        let base = TL_BASES[pick(TL_BASES.len())];
        let body = TL_BODIES[pick(TL_BODIES.len())];
        let level = pick(2);
        let lit = |ind: &str, body: &str| format!("'''\n{ind}{}\n{ind}'''", body.replace('%', ind));
        let stmt = format!("{head}{}{tail}{join}{}{close}", lit("  ", body), lit("  ", "m"));
        let t0 = if level == 0 { format!("begin\n  {stmt}\nend;\n") } else { format!("begin\n  if a then\n  begin\n    {stmt}\n  end;\nend;\n") };
        let o = cfg::DEFAULT.formatter().format(&t0, pasfmt_core::prelude::FileOptions::new());
        // move the first literal
        let toks = crate::refscan::scan(&o);
        let Some(first) = toks.iter().find(|t| t.kind == crate::refscan::Kind::Text(crate::refscan::TextKind::MultiLine)) else {
            return o;
        };
        let l = o2::ml_lit(first.text(&o));
        let mut moved = String::new();
        for (k, (content, term)) in l.lines.iter().enumerate() {
            if k == 0 {
                moved.push_str(content);
            } else {
                let rest = content.strip_prefix(l.base.as_str()).unwrap_or(content);
                if !rest.is_empty() || k == l.lines.len() - 1 {
                    moved.push_str(base);
                }
                moved.push_str(rest);
            }
            moved.push_str(term);
        }
        format!("{}{}{}", &o[..first.start], moved, &o[first.end..])
    }
}
/// one multi-line literal, mis-indented by every amount from 0 to 12 blanks, with something behind its closing quotes
fn one_lit_texts() -> Texts {
    let mut items = vec![];
    for (head, close) in [("x :=\n", ";"), ("f(\n", ", 1);")] {
        for n in 1..=2usize {
            for ind in 0..=12usize {
                for tail in TL_TAILS {
                    let i = " ".repeat(ind);
                    let mut lit = format!("{i}'''\n");
                    for k in 0..n {
                        lit.push_str(&format!("{i}abc{k}\n"));
                    }
                    lit.push_str(&format!("{i}'''"));
                    items.push(format!("begin\n  {head}{lit}{tail}{close}\nend;\n"));
                }
            }
        }
    }
    Texts { name: "one-ml-literal(indent 0..12, 1..2 lines, 6 tails)".into(), items }
}

impl TextSource for TwoLits {
    fn name(&self) -> String {
        "two-ml-literals(first-moved,second-in-place)".into()
    }
    fn len(&self) -> u64 {
        (TL_TAILS.len() * TL_JOINS.len() * TL_BASES.len() * TL_BODIES.len() * 2) as u64
    }
    fn get(&self, idx: u64, buf: &mut String) {
        *buf = Self::build(idx);
    }
}
/// the default configuration at a range of narrow widths (re-flow after re-indentation is width sensitive)
fn lit_wraps() -> Vec<Cfg> {
    [16u32, 20, 24, 28, 32, 36, 40, 50, 60].iter().map(|w| cfg::DEFAULT.with(|c| c.wrap = *w)).collect()
}
fn two_lits() -> TwoLits {
    TwoLits
}
fn lit_texts(max_lines: usize) -> LitTexts {
    LitTexts(o3::C12Family { max_lines, cfgs: vec![cfg::DEFAULT], quotes: vec![3, 5], positions: vec![0, 4] })
}

/// all case patterns of every keyword (2^len each), followed by a delimiter
pub struct KeywordCases;
impl KeywordCases {
    fn words() -> Vec<&'static str> {
        crate::refscan::PURE.iter().chain(crate::refscan::CONTEXTUAL.iter()).copied().collect()
    }
}
impl TextSource for KeywordCases {
    fn name(&self) -> String {
        "keywords-x-all-case-patterns".into()
    }
    fn len(&self) -> u64 {
        Self::words().iter().map(|w| 1u64 << w.len()).sum()
    }
    fn get(&self, mut idx: u64, buf: &mut String) {
        buf.clear();
        for w in Self::words() {
            let n = 1u64 << w.len();
            if idx < n {
                for (k, ch) in w.chars().enumerate() {
                    buf.push(if idx >> k & 1 == 1 { ch.to_ascii_uppercase() } else { ch });
                }
                buf.push_str(" x.");
                for (k, ch) in w.chars().enumerate() {
                    buf.push(if idx >> k & 1 == 1 { ch.to_ascii_uppercase() } else { ch });
                }
                return;
            }
            idx -= n;
        }
    }
}

/// keyword near misses: one char substituted / inserted / deleted, and all [a-z]^{<=n}
pub struct NearMisses;
impl NearMisses {
    fn all() -> Vec<String> {
        let mut out = vec![];
        let letters = "abcdefghijklmnopqrstuvwxyz_0";
        for w in KeywordCases::words() {
            let cs: Vec<char> = w.chars().collect();
            for i in 0..cs.len() {
                let mut d = cs.clone();
                d.remove(i);
                out.push(d.iter().collect());
                for l in letters.chars() {
                    let mut sub = cs.clone();
                    sub[i] = l;
                    out.push(sub.iter().collect());
                }
            }
            for i in 0..=cs.len() {
                for l in letters.chars() {
                    let mut ins = cs.clone();
                    ins.insert(i, l);
                    out.push(ins.iter().collect());
                }
            }
            // the word as a proper prefix: every two-character tail
            for l1 in letters.chars() {
                for l2 in letters.chars() {
                    out.push(format!("{w}{l1}{l2}"));
                }
            }
        }
        out
    }
    /// the same words with an upper-case first letter, in a statement (a word taken for a keyword is lower-cased)
    fn capitalised_statements() -> Vec<String> {
        Self::all()
            .into_iter()
            .filter(|w| w.chars().next().is_some_and(|c| c.is_ascii_alphabetic()))
            .map(|w| {
                let mut c = w.chars();
                let f = c.next().unwrap().to_ascii_uppercase();
                format!("begin {f}{} := 1; end.", c.as_str())
            })
            .collect()
    }
}

impl TextSource for Separators {
    fn name(&self) -> String {
        "separator-comments(2 x 11 chars (3 non-ASCII) x 1..12 x 5 trailing blanks x 3 places)".into()
    }
    fn len(&self) -> u64 {
        Separators::len(self)
    }
    fn get(&self, idx: u64, buf: &mut String) {
        Separators::get(self, idx, buf)
    }
}
impl TextSource for TokenTails {
    fn name(&self) -> String {
        "token-tails(9 forms x every pair of Gamma chars at the end of the body)".into()
    }
    fn len(&self) -> u64 {
        TokenTails::len(self)
    }
    fn get(&self, idx: u64, buf: &mut String) {
        TokenTails::get(self, idx, buf)
    }
}
impl TextSource for LongTokens {
    fn name(&self) -> String {
        format!("long-tokens(12 kinds x len<={} x 5 alignments x 14 delimiters)", self.max_len)
    }
    fn len(&self) -> u64 {
        LongTokens::len(self)
    }
    fn get(&self, idx: u64, buf: &mut String) {
        LongTokens::get(self, idx, buf)
    }
}
impl TextSource for Skeletons {
    fn name(&self) -> String {
        format!("directive-skeletons(len<={})", self.n)
    }
    fn len(&self) -> u64 {
        Skeletons::len(self)
    }
    fn get(&self, idx: u64, buf: &mut String) {
        Skeletons::get(self, idx, buf)
    }
}

/// scaling sweeps: one case per construct
pub struct ScalingFamily {
    pub sizes: Vec<usize>,
    pub cfgs: Vec<Cfg>,
}
impl Family for ScalingFamily {
    fn name(&self) -> String {
        format!("c04scaling:constructs({})xsizes{:?}x{}cfg", crate::alphabet::SCALING_KINDS, self.sizes, self.cfgs.len())
    }
    fn len(&self) -> u64 {
        (crate::alphabet::SCALING_KINDS * self.cfgs.len()) as u64
    }
    fn run(&self, idx: u64, ctx: &mut Ctx) {
        let nc = self.cfgs.len() as u64;
        o::c04_scaling((idx / nc) as usize, &self.cfgs[(idx % nc) as usize], &self.sizes, ctx);
    }
    fn describe(&self, idx: u64) -> Value {
        let nc = self.cfgs.len() as u64;
        let mut construct = crate::alphabet::scaling_input((idx / nc) as usize, 3);
        if construct.len() > 300 {
            construct = format!("...{}", &construct[construct.len() - 300..]);
        }
        json!({"construct": construct, "kind": idx / nc, "sizes": self.sizes, "cfg": self.cfgs[(idx % nc) as usize]})
    }
    fn horizon_ms(&self) -> u64 {
        120_000
    }
}

/// C04 with cursors: every single cursor (and pairs for tiny inputs) must not crash either
fn or_c04_cursors() -> TextOracle {
    Box::new(|x, c, ctx| {
        use pasfmt_core::prelude::Cursor;
        let cs = o3::cursor_set(x);
        let mut all: Vec<Cursor> = cs.iter().map(|v| Cursor(*v)).collect();
        let out = ctx.fmt_cursors(c, x, &mut all);
        if out != x {
            ctx.nontrivial();
        }
        for &a in &cs {
            ctx.sub_eval();
            let mut one = [Cursor(a)];
            let _ = ctx.fmt_cursors(c, x, &mut one);
            if x.len() <= 8 {
                for &b in &cs {
                    let mut two = [Cursor(a), Cursor(b)];
                    let _ = ctx.fmt_cursors(c, x, &mut two);
                }
            }
        }
    })
}

pub struct Texts {
    pub name: String,
    pub items: Vec<String>,
}
impl TextSource for Texts {
    fn name(&self) -> String {
        format!("{}({})", self.name, self.items.len())
    }
    fn len(&self) -> u64 {
        self.items.len() as u64
    }
    fn get(&self, idx: u64, buf: &mut String) {
        buf.clear();
        buf.push_str(&self.items[idx as usize]);
    }
}

pub type TextOracle = Box<dyn Fn(&str, &Cfg, &mut Ctx) + Send + Sync>;

/// texts × configurations, oracle(text, cfg)
pub struct TextFamily {
    pub label: String,
    pub src: Box<dyn TextSource>,
    pub cfgs: Vec<Cfg>,
    pub oracle: TextOracle,
    pub horizon_ms: u64,
}

impl Family for TextFamily {
    fn name(&self) -> String {
        format!("{}:{}x{}cfg", self.label, self.src.name(), self.cfgs.len())
    }
    fn len(&self) -> u64 {
        self.src.len() * self.cfgs.len() as u64
    }
    fn run(&self, idx: u64, ctx: &mut Ctx) {
        let nc = self.cfgs.len() as u64;
        let mut buf = String::new();
        self.src.get(idx / nc, &mut buf);
        (self.oracle)(&buf, &self.cfgs[(idx % nc) as usize], ctx);
    }
    fn describe(&self, idx: u64) -> Value {
        let nc = self.cfgs.len() as u64;
        let mut buf = String::new();
        self.src.get(idx / nc, &mut buf);
        json!({"input": buf, "cfg": self.cfgs[(idx % nc) as usize]})
    }
    fn horizon_ms(&self) -> u64 {
        self.horizon_ms
    }
    fn transitions_per_case(&self) -> u64 {
        self.src.edges() + 1
    }
}

fn tf(label: &str, src: impl TextSource + 'static, cfgs: &[Cfg], oracle: TextOracle) -> Box<dyn Family> {
    let horizon_ms = if src.name().starts_with("large-inputs") { 120_000 } else { 1500 };
    Box::new(TextFamily {
        label: label.to_string(),
        src: Box::new(src),
        cfgs: cfgs.to_vec(),
        oracle,
        horizon_ms,
    })
}

fn soup(k: u32, gaps: &'static [&'static str], contexts: &'static [&'static str]) -> Soup {
    Soup {
        k,
        sigma: SIGMA,
        gaps,
        contexts,
    }
}

pub fn crashes_charged_to(check: &str) -> Option<String> {
    if check == "C04" {
        Some("C04".to_string())
    } else {
        None
    }
}

fn or_c01() -> TextOracle {
    Box::new(|x, c, ctx| {
        let out = ctx.fmt(c, x);
        o::c01(x, &out, c, ctx);
    })
}
fn or_c08(eof_clause: bool) -> TextOracle {
    Box::new(move |x, c, ctx| {
        let out = ctx.fmt(c, x);
        o::c08(x, &out, c, &o::C08Opts { eof_clause }, ctx);
    })
}
fn or_c13() -> TextOracle {
    Box::new(|x, _c, ctx| o::c13(x, ctx))
}
/// lexer vs R, and additionally both identifier-scanning routines (hook) vs R at every word start
fn or_c13_words() -> TextOracle {
    Box::new(|x, _c, ctx| {
        o::c13(x, ctx);
        o::c13_ident_routines(x, ctx);
    })
}
fn or_c14(well_formed: bool) -> TextOracle {
    Box::new(move |x, _c, ctx| o::c14(x, &o::C14Opts { well_formed }, ctx))
}
/// lines for which the wrapper has no solution (its fall-back logs the whole line), filled with long runs of
/// multi-byte characters at every byte phase: any byte-indexed cut of the logged text lands inside a character
/// for one of the phases
/// n nested forced breaks (a line comment behind every opening bracket): the innermost lines carry n continuations
fn c10_continuation_texts() -> Vec<String> {
    let mut out = vec![];
    for n in 1..=14usize {
        for (open, close) in [("F(", ")"), ("[", "]"), ("A[", "]")] {
            for depth in [0usize, 1, 3] {
                let mut s = "begin ".repeat(depth + 1);
                s.push_str("X := ");
                for _ in 0..n {
                    s.push_str(open);
                    s.push_str(" // c\n");
                }
                s.push_str("1, 2");
                s.push_str(&close.repeat(n));
                s.push(';');
                s.push_str(&" end;".repeat(depth + 1));
                out.push(s);
            }
        }
    }
    out
}

/// a statement whose first token is a multi-line literal (or comment) with a wrappable tail on its last line
fn c11_literal_first_texts() -> Vec<String> {
    let mut out = vec![];
    for head in ["'''\n    some text\n    more\n  '''", "'''\n  t\n  '''", "{ c\n  d }", "(* c\n d *)"] {
        for tail in [".Replace(Alpha, Beta, Gamma);", ".Foo(A).Bar(Beta, Gamma + Delta);", " + Alpha + Beta * Gamma;", ".Replace(Alpha, Beta, Gamma).Trim;"] {
            for lead in ["", "x;\n"] {
                if head.starts_with('\'') || tail.starts_with('.') {
                    let t = if head.starts_with('\'') { tail.to_string() } else { format!(" Obj{tail}") };
                    out.push(format!("procedure Test;\nbegin\n  {lead}{head}{t}\nend;\n"));
                    out.push(format!("begin begin\n  {lead}{head}{t}\nend; end.\n"));
                }
            }
        }
    }
    out
}

fn c04_fallback_texts() -> Vec<String> {
    let mut out = vec![];
    for ch in ["\u{e9}", "\u{65e5}", "\u{1f600}"] {
        for shift in 0..ch.len() {
            let run = format!("{}{}", "a".repeat(shift), ch.repeat(700));
            for pad in [0usize, 100, 246] {
                let p = "b".repeat(pad);
                out.push(format!("x := [^{{{p}\n{run} }} M];"));
                out.push(format!("x := [^{{ {p}{run}"));
                out.push(format!("x := [^{{ c\n d }} M, '{p}{run}', {run}];"));
                out.push(format!("procedure P;\ntype T = procedure of object {{{p}{run}\nd}};\nbegin\nend;"));
                out.push(format!("begin\n  {run}{p} := [^{{ c\n d }} {run}];\nend."));
            }
        }
    }
    out
}

fn or_c04() -> TextOracle {
    Box::new(|x, c, ctx| {
        let out = ctx.fmt(c, x);
        if out != x {
            ctx.nontrivial();
        }
    })
}



/// deliberately badly formatted rendering: upper-cased keywords, irregular gaps
fn ugly(toks: &[crate::grammar::GTok]) -> Vec<String> {
    let frozen = crate::layout::frozen_gaps(toks);
    let gaps = [" ", "   ", "\n", "\n\t ", " \t", "\n\n      "];
    let mut out = vec![];
    for (i, t) in toks.iter().enumerate() {
        let mut s = String::new();
        if i > 0 {
            if frozen[i] || t.hard_nl {
                s.push_str(if t.hard_nl { "\n" } else { " " });
            } else {
                s.push_str(gaps[i % gaps.len()]);
            }
        }
        if crate::refscan::keyword_capable(&t.text) && !frozen[i] {
            s.push_str(&t.text.to_ascii_uppercase());
        } else {
            s.push_str(&t.text);
        }
        out.push(s);
    }
    out
}

/// C04: disabled regions whose boundaries sit at statement-level positions (before a marked token or after
/// then / do / else / of / begin / `:`): no such placement may make the formatter crash or hang
fn c04_regions(g: &Arc<Grammar>, d: usize, cfgs: &[Cfg]) -> Box<dyn Family> {
    pf(
        "c04regions",
        g,
        d,
        cfgs,
        Box::new(move |_g, toks, c, ctx| {
            use crate::grammar::{M_B, M_C, M_D, M_K, M_O, M_S};
            let l1 = crate::layout::base_gaps(toks, crate::layout::Base::L1);
            let n = toks.len();
            let mut pos: Vec<usize> = (0..n)
                .filter(|&i| {
                    toks[i].marks & (M_S | M_K | M_B | M_O | M_C | M_D) != 0
                        || (i > 0 && matches!(toks[i - 1].text.as_str(), "then" | "do" | "else" | "of" | "begin" | ":" | ";"))
                })
                .collect();
            pos.push(n);
            let mut first = true;
            for (a, &i) in pos.iter().enumerate() {
                for &j in &pos[a..] {
                    let mut x = String::new();
                    for k in 0..n {
                        if k == i {
                            x.push_str("\n// pasfmt off\n");
                        } else if k == j && j != i {
                            x.push_str("\n// pasfmt on\n");
                        } else if k > 0 {
                            x.push_str(&l1[k]);
                        }
                        x.push_str(&toks[k].text);
                    }
                    if i == n {
                        x.push_str("\n// pasfmt off\n");
                    }
                    if j == i && i < n {
                        // an empty region right here: off immediately followed by on
                        x = x.replacen("\n// pasfmt off\n", "\n// pasfmt off\n// pasfmt on\n", 1);
                    }
                    if !first {
                        ctx.sub_eval();
                    }
                    first = false;
                    let out = ctx.fmt(c, &x);
                    if out != x {
                        ctx.nontrivial();
                    }
                }
            }
        }),
    )
}

fn c07_regions(g: &Arc<Grammar>, d: usize, cfgs: &[Cfg], all_spellings: bool) -> Box<dyn Family> {
    pf(
        "c07regions",
        g,
        d,
        cfgs,
        Box::new(move |_g, toks, c, ctx| {
            let parts = ugly(toks);
            let n = parts.len();
            let frozen = crate::layout::frozen_gaps(toks);
            let nsp = if all_spellings { o3::TOGGLE_OFF.len() } else { 3 };
            let mut first = true;
            let mut depth = 0i32;
            let mut boundary = vec![false; n + 1];
            boundary[0] = true;
            // (a `;` inside an anonymous routine that is part of a larger expression is no boundary)
            let mut blocks: Vec<bool> = vec![];
            for (i, t) in toks.iter().enumerate() {
                match t.text.as_str() {
                    "(" | "[" | "<" => depth += 1,
                    ")" | "]" | ">" => depth -= 1,
                    _ => {}
                }
                let mut inherited = false;
                if t.marks & crate::grammar::M_C != 0 {
                    inherited = blocks.pop().unwrap_or(false);
                }
                if t.marks & crate::grammar::M_O != 0 {
                    blocks.push(t.marks & crate::grammar::M_A != 0 || (t.marks & crate::grammar::M_C != 0 && inherited));
                }
                for _ in 0..t.pop_o {
                    blocks.pop();
                }
                boundary[i + 1] = t.text == ";" && depth == 0 && !blocks.iter().any(|a| *a);
            }
            for i in 0..=n {
                if i < n && frozen[i] {
                    continue;
                }
                // j == n + 1 means: no closing toggle
                for j in i..=(n + 1) {
                    if j < n && frozen[j] {
                        continue;
                    }
                    for sp in 0..nsp {
                        let mut x = String::new();
                        for p in &parts[..i] {
                            x.push_str(p);
                        }
                        let prefix_len = x.len();
                        let block = !o3::TOGGLE_OFF[sp].starts_with("//");
                        // block-comment spellings are also tried inline
                        let mut own_line = true;
                        if block && (i + j + sp) % 2 == 1 {
                            own_line = false;
                            x.push(' ');
                            x.push_str(o3::TOGGLE_OFF[sp]);
                            x.push(' ');
                        } else {
                            x.push('\n');
                            x.push_str(o3::TOGGLE_OFF[sp]);
                            x.push('\n');
                        }
                        let jj = j.min(n);
                        for p in &parts[i..jj] {
                            x.push_str(p);
                        }
                        if j <= n {
                            if block && (i + j + sp) % 3 == 1 {
                                x.push(' ');
                                x.push_str(o3::TOGGLE_ON[sp]);
                                x.push(' ');
                            } else {
                                x.push_str("  \n");
                                x.push_str(o3::TOGGLE_ON[sp]);
                                x.push('\n');
                            }
                            for p in &parts[jj..] {
                                x.push_str(p);
                            }
                        }
                        if !first {
                            ctx.sub_eval();
                        }
                        first = false;
                        // (an inline toggle comment lengthens the last line of the prefix)
                        let pl = if boundary[i] && own_line { Some(prefix_len) } else { None };
                        o3::c07(&x, pl, c, ctx);
                        if j == n {
                            // the closing toggle is the last token of the file: whatever blanks follow it,
                            // formatting is on again and the end of the file is canonical
                            for tail in ["", "\n\n\n", "  ", "\n  \n", "\r\n\r\n"] {
                                let mut y = x.trim_end_matches('\n').to_string();
                                y.push_str(tail);
                                ctx.sub_eval();
                                o3::c07_eof(&y, None, true, c, ctx);
                            }
                        }
                        if j == n + 1 {
                            // a region that runs to the end of the file: ends of the file without a final
                            // line terminator (after the toggle itself, a line comment, code, blanks)
                            for tail in ["", "//c", "{c}", "a", "  ", "\t//"] {
                                let mut y = x.trim_end_matches('\n').to_string();
                                if !tail.is_empty() {
                                    y.push('\n');
                                    y.push_str(tail);
                                }
                                ctx.sub_eval();
                                o3::c07(&y, None, c, ctx);
                            }
                        }
                        if !block && j == n + 1 {
                            // the same with lone-CR line ends around the toggle comment
                            let y = x.replacen(&format!("\n{}\n", o3::TOGGLE_OFF[sp]), &format!("\r{}\r", o3::TOGGLE_OFF[sp]), 1);
                            ctx.sub_eval();
                            o3::c07(&y, None, c, ctx);
                        }
                    }
                }
                // two regions: [i, j) closed, then a second one from k to the end of the file
                for j in i..=n {
                    if j < n && frozen[j] {
                        continue;
                    }
                    for k in j..=n {
                        if k < n && frozen[k] {
                            continue;
                        }
                        let sp = (i + j + k) % o3::TOGGLE_OFF.len();
                        let mut x = String::new();
                        for p in &parts[..i] {
                            x.push_str(p);
                        }
                        if i > 0 {
                            x.push('\n');
                        }
                        x.push_str(o3::TOGGLE_OFF[sp]);
                        x.push('\n');
                        for p in &parts[i..j] {
                            x.push_str(p);
                        }
                        x.push('\n');
                        x.push_str(o3::TOGGLE_ON[sp]);
                        x.push('\n');
                        for p in &parts[j..k] {
                            x.push_str(p);
                        }
                        x.push('\n');
                        x.push_str(o3::TOGGLE_OFF[(sp + 1) % o3::TOGGLE_OFF.len()]);
                        x.push('\n');
                        for p in &parts[k..] {
                            x.push_str(p);
                        }
                        ctx.sub_eval();
                        o3::c07(&x, None, c, ctx);
                    }
                }
                // a comment that is not a toggle: nothing may be kept verbatim
                for (k, nt) in o3::NON_TOGGLES.iter().enumerate() {
                    if (i + k) % 3 != 0 && !all_spellings {
                        continue;
                    }
                    let mut x = String::new();
                    for p in &parts[..i] {
                        x.push_str(p);
                    }
                    x.push('\n');
                    x.push_str(nt);
                    x.push('\n');
                    for p in &parts[i..] {
                        x.push_str(p);
                    }
                    ctx.sub_eval();
                    o3::c07(&x, None, c, ctx);
                }
            }
        }),
    )
}

const ASM_LINES: [&str; 25] = [
    "mov   {$ifdef CPUX64}  rax  {$else}  eax  {$endif},   1", "add  eax ,{$IFDEF A} 1 {$ENDIF}  +  2",
    "{$IFDEF X} mov   a,b {$ENDIF}", "mov eax, {$ifdef A} [1] {$else} 2 {$endif}", "{$IFDEF X}", "{$R+}  nop", "{pasfmt off} mov  a ,b",
    "mov  a {pasfmt on}  ,   ebx", "{pasfmt off}  mov   a,b {pasfmt on}  ,  c", "(* PasFmt On *)   mov   esi,    edi",
    "mov eax, 1", "@@l:", "@l: ret", "MOV  EAX ,[EBX+4]", "db 'a', \"b\", 0FFh, 101b", "nop; nop", "// c",
    "{c} nop", "mov al, 'x' // c", "push   eax  ", "lock cmpxchg [ecx], edx", "jmp @@l", "mov eax, offset x",
    "dw 1, 2 ; x", "BEGIN",
];

fn c07_asm_texts(two_lines: bool) -> Vec<String> {
    let mut out = vec![];
    let indents = ["", "    ", "\t"];
    let nls = ["\n", "\r\n"];
    let n = ASM_LINES.len();
    let count = if two_lines { n + n * n } else { n };
    for k in 0..count {
        let lines: Vec<&str> = if k < n { vec![ASM_LINES[k]] } else { vec![ASM_LINES[(k - n) / n], ASM_LINES[(k - n) % n]] };
        for ind in indents {
            for nl in nls {
                for shape in 0..3 {
                    let mut body = String::new();
                    for l in &lines {
                        body.push_str(ind);
                        body.push_str(l);
                        body.push_str(nl);
                    }
                    let x = match shape {
                        0 => format!("procedure P;{nl}begin{nl}  A:=1;{nl}  ASM{nl}{body}  END;{nl}  B:=2;{nl}end;{nl}"),
                        1 => format!("procedure P; assembler;{nl}asm{nl}{body}end;{nl}"),
                        _ => format!("begin if a then asm{nl}{body}end else asm {} end; end.", lines[0]),
                    };
                    out.push(x);
                }
            }
        }
    }
    out
}

fn c11_big_texts(n: usize) -> Vec<String> {
    let list = |sep: &str, item: &dyn Fn(usize) -> String| (0..n).map(|i| item(i)).collect::<Vec<_>>().join(sep);
    vec![
        format!("const T: array[0..{}] of Integer = ({});\n", n - 1, list(", ", &|i| (i % 97).to_string())),
        format!("begin\n  f({});\nend.\n", list(", ", &|i| format!("a{}", i % 13))),
        format!("begin\n  x := {};\nend.\n", list(" + ", &|i| (i % 7).to_string())),
        format!("uses {};\n", list(", ", &|i| format!("Unit{i}"))),
        format!("const S = {};\n", list(" + ", &|i| format!("'s{}'", i % 11))),
        // one compound statement whose body has thousands of statements (all of them child lines of one line)
        format!("begin\n  if a then\n  begin\n{}  end;\nend.\n", (0..n / 2).map(|i| format!("    x{} := f(aaaa, bbbb{});\n", i % 9, i % 5)).collect::<String>()),
        format!("begin\n  case a of\n    1:\n    begin\n{}    end;\n  end;\nend.\n", (0..n / 2).map(|i| format!("      y{} := g(cccc) + h(dddd{});\n", i % 9, i % 5)).collect::<String>()),
    ]
}

const W_QUICK: [u32; 6] = [16, 24, 30, 60, 120, 200];
const W_FULL: [u32; 13] = [10, 16, 20, 24, 30, 40, 50, 60, 80, 100, 120, 160, 200];

fn wf_seeds() -> Arc<Vec<Seed>> {
    Arc::new(progs::load_seeds().into_iter().filter(|s| s.well_formed).collect())
}
fn all_seeds() -> Arc<Vec<Seed>> {
    Arc::new(progs::load_seeds())
}

fn vopts(comments: bool, directives: bool, gap_flips: bool) -> VariantOpts {
    VariantOpts { comments, directives, gap_flips }
}

/// run `f(text)` on every variant of a program, counting each as an evaluation
fn prog_variants(
    label: &str,
    g: &Arc<Grammar>,
    d: usize,
    cfgs: &[Cfg],
    vo: fn() -> VariantOpts,
    f: fn(&str, &Cfg, &mut Ctx),
) -> Box<dyn Family> {
    pf(
        label,
        g,
        d,
        cfgs,
        Box::new(move |g, toks, c, ctx| {
            let mut first = true;
            progs::for_variants(g, toks, &vo(), |t, _kind| {
                if !first {
                    ctx.sub_eval();
                }
                first = false;
                f(t, c, ctx);
            });
        }),
    )
}

fn f_c02(x: &str, c: &Cfg, ctx: &mut Ctx) {
    let out = ctx.fmt(c, x);
    o2::c02(x, &out, c, ctx);
}
fn f_c03(x: &str, c: &Cfg, ctx: &mut Ctx) {
    o2::c03(x, c, ctx);
}
fn f_c01(x: &str, c: &Cfg, ctx: &mut Ctx) {
    let out = ctx.fmt(c, x);
    o::c01(x, &out, c, ctx);
}
/// a trailing line comment in every gap of the d<=2 programs, the next line indented by three blanks or not at all
fn c08_trailing_comments(g: &Arc<Grammar>, d: usize, cfgs: &[Cfg]) -> Box<dyn Family> {
    pf(
        "c08eof:trailing-line-comment-in-every-gap",
        g,
        d,
        cfgs,
        Box::new(move |_g, toks, c, ctx| {
            use crate::layout::{self, Base};
            let l0 = layout::base_gaps(toks, Base::L0);
            let frozen = layout::frozen_gaps(toks);
            let mut first = true;
            for i in 1..toks.len() {
                if frozen[i] {
                    continue;
                }
                for p in [2usize, 3] {
                    if !first {
                        ctx.sub_eval();
                    }
                    first = false;
                    f_c08_eof(&layout::with_comment(toks, &l0, i, 2, p), c, ctx);
                }
            }
        }),
    )
}
/// a disabled region from every statement-level position up to a closing toggle that is the last token of the
/// file, followed by nothing, blank lines, blanks: formatting is on again at the end of the file
fn c08_toggle_at_eof(g: &Arc<Grammar>, d: usize, cfgs: &[Cfg]) -> Box<dyn Family> {
    pf(
        "c08eof:region-closed-by-the-last-token",
        g,
        d,
        cfgs,
        Box::new(move |_g, toks, c, ctx| {
            use crate::grammar::{M_B, M_C, M_D, M_K, M_O, M_S};
            let l1 = crate::layout::base_gaps(toks, crate::layout::Base::L1);
            let n = toks.len();
            let mut first = true;
            for i in 0..=n {
                if i < n && toks[i].marks & (M_S | M_K | M_B | M_O | M_C | M_D) == 0 {
                    continue;
                }
                let mut x = String::new();
                for k in 0..n {
                    if k == i {
                        x.push_str("\n// pasfmt off\n");
                    } else if k > 0 {
                        x.push_str(&l1[k]);
                    }
                    x.push_str(&toks[k].text);
                }
                if i == n {
                    x.push_str("\n{pasfmt off}");
                }
                for (on, tail) in [("\n// pasfmt on", ""), ("\n// pasfmt on", "\n\n\n"), (" {pasfmt on}", "  "), ("\n(* pasfmt on *)", "\n  \n"), ("\n// pasfmt on", "\n")] {
                    if !first {
                        ctx.sub_eval();
                    }
                    first = false;
                    f_c08_eof(&format!("{x}{on}{tail}"), c, ctx);
                }
            }
        }),
    )
}
fn f_c08_eof(x: &str, c: &Cfg, ctx: &mut Ctx) {
    let out = ctx.fmt(c, x);
    o::c08(x, &out, c, &o::C08Opts { eof_clause: true }, ctx);
}
fn f_c14_wf(x: &str, _c: &Cfg, ctx: &mut Ctx) {
    o::c14(x, &o::C14Opts { well_formed: true }, ctx);
}
fn f_c13(x: &str, c: &Cfg, ctx: &mut Ctx) {
    o::c13(x, ctx);
    let out = ctx.fmt(c, x);
    o::c13(&out, ctx);
}
fn f_c09(x: &str, c: &Cfg, ctx: &mut Ctx) {
    o2::c09(x, c, ctx);
}
/// all multi-line literals of x obey the indentation rule (so x can be well-formed)
fn literals_valid(x: &str) -> bool {
    crate::refscan::scan(x).iter().all(|t| {
        t.kind != crate::refscan::Kind::Text(crate::refscan::TextKind::MultiLine) || o2::ml_lit(t.text(x)).value.is_some()
    })
}
fn wf_lits_box(f: TextOracle) -> TextOracle {
    Box::new(move |x, c, ctx| {
        if literals_valid(x) {
            f(x, c, ctx)
        } else {
            ctx.count("skipped-invalid-literal");
        }
    })
}
fn wf_lits(f: fn(&str, &Cfg, &mut Ctx)) -> TextOracle {
    Box::new(move |x, c, ctx| {
        if literals_valid(x) {
            f(x, c, ctx)
        } else {
            ctx.count("skipped-invalid-literal");
        }
    })
}

/// every prefix, every single-token deletion and every adjacent-token swap of every seed
fn seed_mutations(label: &str, seeds: &Arc<Vec<Seed>>, cfgs: &[Cfg], f: fn(&str, &Cfg, &mut Ctx)) -> Box<dyn Family> {
    sf(
        label,
        seeds,
        cfgs,
        Box::new(move |s, c, ctx| {
            let x = &s.text;
            let toks = crate::refscan::scan(x);
            let n = toks.len() - 1;
            let piece = |i: usize| &x[toks[i].ws..toks[i].end];
            let mut first = true;
            let mut run = |t: &str, ctx: &mut Ctx| {
                if !first {
                    ctx.sub_eval();
                }
                first = false;
                f(t, c, ctx);
            };
            for i in 0..=n {
                run(&x[..toks[i].ws], ctx);
            }
            for i in 0..n {
                let mut t = String::with_capacity(x.len());
                t.push_str(&x[..toks[i].ws]);
                t.push_str(&x[toks[i].end..]);
                run(&t, ctx);
            }
            for i in 0..n.saturating_sub(1) {
                let mut t = String::with_capacity(x.len());
                t.push_str(&x[..toks[i].ws]);
                t.push_str(piece(i + 1));
                t.push_str(piece(i));
                t.push_str(&x[toks[i + 1].end..]);
                run(&t, ctx);
            }
        }),
    )
}
fn f_c04(x: &str, c: &Cfg, ctx: &mut Ctx) {
    let out = ctx.fmt(c, x);
    if out != x {
        ctx.nontrivial();
    }
}

fn vo_base() -> VariantOpts {
    vopts(false, false, false)
}
fn vo_flips() -> VariantOpts {
    vopts(false, false, true)
}
fn vo_all() -> VariantOpts {
    vopts(true, true, true)
}
fn vo_dirs() -> VariantOpts {
    vopts(false, true, false)
}
fn vo_cd() -> VariantOpts {
    vopts(true, true, false)
}

fn seed_texts(label: &str, seeds: &Arc<Vec<Seed>>, cfgs: &[Cfg], f: fn(&str, &Cfg, &mut Ctx)) -> Box<dyn Family> {
    sf(label, seeds, cfgs, Box::new(move |s, c, ctx| f(&s.text, c, ctx)))
}

/// derivation features that explain width-dependent choices the optimiser makes on the pinned tree
/// (they become part of a C11 signature): an anonymous routine (the parser only knows them in plain
/// statements) or a raise statement (its expression parser stops at `^`)
fn c11_tag(toks: &[crate::grammar::GTok]) -> Option<&'static str> {
    if toks.iter().any(|t| t.marks & crate::grammar::M_A != 0) {
        Some("program-with-anonymous-routine")
    } else if toks.iter().any(|t| t.text == "raise") {
        Some("program-with-raise-statement")
    } else {
        None
    }
}

/// deep-nesting programs through the base layouts
fn deep_variants(label: &str, g: &Arc<Grammar>, d: usize, max_depth: usize, cfgs: &[Cfg], f: fn(&str, &Cfg, &mut Ctx)) -> Box<dyn Family> {
    Box::new(progs::DeepFamily {
        label: label.to_string(),
        g: g.clone(),
        d,
        max_depth,
        cfgs: cfgs.to_vec(),
        f: Box::new(move |_g, toks, c, ctx| {
            let mut first = true;
            for t in progs::base_texts(toks) {
                if !first {
                    ctx.sub_eval();
                }
                first = false;
                f(&t, c, ctx);
            }
        }),
    })
}
fn deep_c05(g: &Arc<Grammar>, d: usize, max_depth: usize, cfgs: &[Cfg]) -> Box<dyn Family> {
    Box::new(progs::DeepFamily {
        label: "c05".to_string(),
        g: g.clone(),
        d,
        max_depth,
        cfgs: cfgs.to_vec(),
        f: Box::new(move |_g, toks, c, ctx| {
            use crate::layout::{self, Base};
            let mut first = true;
            for b in [Base::L0, Base::L1, Base::L2] {
                if !first {
                    ctx.sub_eval();
                }
                first = false;
                let x = layout::render(toks, &layout::base_gaps(toks, b));
                let out = ctx.fmt(c, &x);
                if o2::c02(&x, &out, c, ctx) {
                    o2::c05(&x, toks, &out, c, ctx);
                }
            }
        }),
    })
}
fn wide_c05(g: &Arc<Grammar>, sizes: &[usize], cfgs: &[Cfg]) -> Box<dyn Family> {
    Box::new(progs::WideFamily {
        label: "c05".to_string(),
        g: g.clone(),
        sizes: sizes.to_vec(),
        cfgs: cfgs.to_vec(),
        f: Box::new(move |_g, toks, c, ctx| {
            use crate::layout::{self, Base};
            let mut first = true;
            for b in [Base::L0, Base::L1] {
                if !first {
                    ctx.sub_eval();
                }
                first = false;
                let x = layout::render(toks, &layout::base_gaps(toks, b));
                let out = ctx.fmt(c, &x);
                if o2::c02(&x, &out, c, ctx) {
                    o2::c05(&x, toks, &out, c, ctx);
                }
            }
        }),
    })
}
fn wide_c06(g: &Arc<Grammar>, sizes: &[usize], cfgs: &[Cfg]) -> Box<dyn Family> {
    Box::new(progs::WideFamily {
        label: "c06".to_string(),
        g: g.clone(),
        sizes: sizes.to_vec(),
        cfgs: cfgs.to_vec(),
        f: Box::new(move |_g, toks, c, ctx| {
            let texts = progs::base_texts(toks);
            let o0 = ctx.fmt(c, &texts[0]);
            for t in &texts[1..2] {
                ctx.sub_eval();
                ctx.nontrivial();
                let o = ctx.fmt(c, t);
                if o != o0 {
                    ctx.fail("C06", o2::c06_signature(&texts[0], t, &o0, &o), o2::first_diff_line(&o0, &o), json!({"oracle": "c06", "input_head": texts[0].chars().take(200).collect::<String>(), "tokens": toks.len(), "cfg": c, "no_confirm": true}));
                }
            }
        }),
    })
}
fn deep_c06(g: &Arc<Grammar>, d: usize, max_depth: usize, cfgs: &[Cfg]) -> Box<dyn Family> {
    Box::new(progs::DeepFamily {
        label: "c06".to_string(),
        g: g.clone(),
        d,
        max_depth,
        cfgs: cfgs.to_vec(),
        f: Box::new(move |_g, toks, c, ctx| {
            let texts = progs::base_texts(toks);
            let o0 = ctx.fmt(c, &texts[0]);
            for t in &texts[1..] {
                ctx.sub_eval();
                ctx.nontrivial();
                let o = ctx.fmt(c, t);
                if o != o0 {
                    ctx.fail("C06", o2::c06_signature(&texts[0], t, &o0, &o), o2::first_diff_line(&o0, &o), json!({"oracle": "c06", "input": texts[0], "input2": t, "cfg": c}));
                }
            }
        }),
    })
}

/// C02 with the generator's knowledge of which words are identifiers
fn c02_ident_family(g: &Arc<Grammar>, d: usize, cfgs: &[Cfg]) -> Box<dyn Family> {
    pf(
        "c02ident",
        g,
        d,
        cfgs,
        Box::new(move |_g, toks, c, ctx| {
            if !toks.iter().any(|t| t.marks & crate::grammar::M_I != 0) {
                return;
            }
            let mut first = true;
            for x in progs::base_texts(toks) {
                if !first {
                    ctx.sub_eval();
                }
                first = false;
                let out = ctx.fmt(c, &x);
                if o2::c02(&x, &out, c, ctx) {
                    o2::c02_identifiers(&x, toks, &out, c, ctx);
                }
            }
        }),
    )
}

fn c05_family(g: &Arc<Grammar>, d: usize, cfgs: &[Cfg], flips: bool, comments: bool) -> Box<dyn Family> {
    c05_family_mode(g, d, cfgs, flips, if comments { 1 } else { 0 })
}
fn c05_family_mode(g: &Arc<Grammar>, d: usize, cfgs: &[Cfg], flips: bool, comment_mode: u8) -> Box<dyn Family> {
    let comments = comment_mode > 0;
    pf(
        "c05",
        g,
        d,
        cfgs,
        Box::new(move |_g, toks, c, ctx| {
            use crate::layout::{self, Base};
            let mut first = true;
            let mut run = |gaps: &Vec<String>, ctx: &mut Ctx| {
                if !first {
                    ctx.sub_eval();
                }
                first = false;
                let x = layout::render(toks, gaps);
                let out = ctx.fmt(c, &x);
                if o2::c02(&x, &out, c, ctx) {
                    o2::c05(&x, toks, &out, c, ctx);
                }
            };
            for b in [Base::L0, Base::L1, Base::L2] {
                run(&layout::base_gaps(toks, b), ctx);
            }
            if flips {
                let frozen = layout::frozen_gaps(toks);
                let l1 = layout::base_gaps(toks, Base::L1);
                for i in 1..toks.len() {
                    if frozen[i] || toks[i].hard_nl {
                        continue;
                    }
                    let mut gaps = l1.clone();
                    gaps[i] = "\n".to_string();
                    run(&gaps, ctx);
                }
            }
            if comments {
                // a comment in any gap, or a whole statement wrapped in {$IFDEF X}..{$ENDIF}, must not
                // move any statement to another line or level
                let l0 = layout::base_gaps(toks, Base::L0);
                let frozen = layout::frozen_gaps(toks);
                let mut run_text = |x: String, ctx: &mut Ctx| {
                    ctx.sub_eval();
                    let out = ctx.fmt(c, &x);
                    if o2::c02(&x, &out, c, ctx) {
                        o2::c05(&x, toks, &out, c, ctx);
                    }
                };
                for i in 1..toks.len() {
                    if frozen[i] {
                        continue;
                    }
                    if comment_mode == 2 {
                        // an inline block comment only
                        run_text(layout::with_comment(toks, &l0, i, 0, 0), ctx);
                        continue;
                    }
                    for k in [0usize, 2, 4] {
                        for p in 0..3 {
                            run_text(layout::with_comment(toks, &l0, i, k, p), ctx);
                        }
                    }
                }
                let nts: Vec<usize> = ["Stmt"].iter().map(|n| _g.nt(n)).collect();
                for (a, b) in layout::spans(toks, &nts) {
                    if comment_mode == 2 {
                        break;
                    }
                    if (a..b).any(|j| frozen[j]) {
                        continue;
                    }
                    run_text(layout::with_directive(toks, &l0, a, b, 0), ctx);
                }
            }
        }),
    )
}

fn c06_prog_family(g: &Arc<Grammar>, d: usize, cfgs: &[Cfg], opts: fn() -> RelayoutOpts) -> Box<dyn Family> {
    pf(
        "c06",
        g,
        d,
        cfgs,
        Box::new(move |_g, toks, c, ctx| {
            let texts = progs::base_texts(toks);
            // L0, L1, L2 must agree with each other ...
            let o0 = ctx.fmt(c, &texts[0]);
            for t in &texts[1..] {
                ctx.sub_eval();
                ctx.nontrivial();
                let o = ctx.fmt(c, t);
                if o != o0 {
                    ctx.fail(
                        "C06",
                        "layout-dependent-output",
                        o2::first_diff_line(&o0, &o),
                        json!({"oracle": "c06", "input": texts[0], "input2": t, "cfg": c}),
                    );
                }
            }
            // ... and every bounded re-layout of L0 with L0
            progs::c06_relayouts(&texts[0], c, &opts(), ctx);
        }),
    )
}

/// C06 with comments present: the gaps that do not touch the comment are re-laid-out
fn c06_comment_family(g: &Arc<Grammar>, d: usize, cfgs: &[Cfg], kinds: &'static [usize], placements: &'static [usize]) -> Box<dyn Family> {
    pf(
        "c06comments",
        g,
        d,
        cfgs,
        Box::new(move |_g, toks, c, ctx| {
            use crate::layout::{self, Base};
            let l0 = layout::base_gaps(toks, Base::L0);
            let frozen = layout::frozen_gaps(toks);
            let mut first = true;
            for i in 1..toks.len() {
                if frozen[i] {
                    continue;
                }
                for &k in kinds {
                    for &p in placements {
                        if !first {
                            ctx.sub_eval();
                        }
                        first = false;
                        let x = layout::with_comment(toks, &l0, i, k, p);
                        progs::c06_relayouts(&x, c, &ro_singles(), ctx);
                    }
                }
            }
        }),
    )
}

/// statements that are partly inside disabled regions: the formatted remainder must not depend on its layout
fn c06_toggle_family(cfgs: &[Cfg], opts: fn() -> RelayoutOpts) -> Box<dyn Family> {
    let items: Vec<String> = [
        "begin\n  Bar({pasfmt off} a  ,  b {pasfmt on}, Alpha + Beta, Gamma * Delta, {pasfmt off} c {pasfmt on});\nend.",
        "begin\n  x := {pasfmt off} a  +  b {pasfmt on} + Alpha + Beta * Gamma - {pasfmt off}  c {pasfmt on};\nend.",
        "begin\n  Bar(Alpha, {pasfmt off} a , b {pasfmt on}, Gamma * Delta);\n  y := z;\nend.",
        "begin\n  a := b + {pasfmt off} c; d := {pasfmt on} e + f * g;\n  h := i + j;\nend.",
        "begin\n  if {pasfmt off} a  =  b {pasfmt on} and (c or d) and {pasfmt off} e {pasfmt on} then begin x := y; end;\nend.",
        "type T = class\n  procedure M({pasfmt off} a : T {pasfmt on}; b, c: U; {pasfmt off} d:V {pasfmt on}); virtual; abstract;\nend;",
        "{pasfmt off} unit  U ; {pasfmt on} interface uses A, B; implementation {pasfmt off} end . {pasfmt on}",
        // the first and the last token of the statement lie in two different regions
        "begin\n  {pasfmt off} Bar(a  , {pasfmt on} Alpha + Beta, Gamma * Delta, {pasfmt off} c)  ; {pasfmt on}\n  Baz;\nend.",
        "procedure Foo;\nbegin\n  // pasfmt off\n  Bar(A,\n  // pasfmt on\n    Alpha + Beta, Gamma * Delta,\n  // pasfmt off\n    Z);\n  // pasfmt on\n  Baz;\nend;",
        "begin\n  {pasfmt off} x  := {pasfmt on} Alpha + Beta * Gamma - Delta {pasfmt off} ; {pasfmt on}\n  if a then {pasfmt off} begin {pasfmt on} y := z + w; {pasfmt off} end ; {pasfmt on}\nend.",
    ]
    .iter()
    .map(|s| s.to_string())
    .collect();
    tf(
        "c06toggles",
        Texts { name: "statements-partly-in-disabled-regions".into(), items },
        cfgs,
        Box::new(move |x, c, ctx| progs::c06_relayouts(x, c, &opts(), ctx)),
    )
}

fn ro_singles() -> RelayoutOpts {
    RelayoutOpts { singles: true, pairs: false, all_assignments_upto: 0 }
}
fn ro_deep() -> RelayoutOpts {
    RelayoutOpts { singles: true, pairs: true, all_assignments_upto: 12 }
}
fn ro_mid() -> RelayoutOpts {
    RelayoutOpts { singles: true, pairs: false, all_assignments_upto: 10 }
}

fn c09_variants(x: &str, c: &Cfg, pairs: bool, ctx: &mut Ctx) {
    // x with all LF, then every single (and pair of) terminator(s) flipped to CRLF
    let lf = o2::to_lf(x);
    o2::c09(&lf, c, ctx);
    if o2::has_lone_cr(&lf) {
        return;
    }
    let pos: Vec<usize> = lf.match_indices('\n').map(|(i, _)| i).collect();
    if pos.is_empty() {
        return;
    }
    ctx.sub_eval();
    o2::c09(&o2::to_crlf(&lf), c, ctx);
    let flip = |which: &[usize]| {
        let mut s = String::with_capacity(lf.len() + 4);
        let mut last = 0;
        for &w in which {
            s.push_str(&lf[last..pos[w]]);
            s.push_str("\r\n");
            last = pos[w] + 1;
        }
        s.push_str(&lf[last..]);
        s
    };
    if pos.len() <= 40 {
        for a in 0..pos.len() {
            ctx.sub_eval();
            o2::c09(&flip(&[a]), c, ctx);
        }
    }
    if pairs && pos.len() <= 8 {
        for a in 0..pos.len() {
            for b in (a + 1)..pos.len() {
                ctx.sub_eval();
                o2::c09(&flip(&[a, b]), c, ctx);
            }
        }
    }
}

pub fn families(check: &str, tier: &str) -> Vec<Box<dyn Family>> {
    let quick = tier == "quick";
    let one = [cfg::DEFAULT];
    let full = cfg::c_full();
    let g = |d: usize| Arc::new(Grammar::load(d));
    match check {
        "C01" => {
            if quick {
                vec![
                    tf("c01", soup(2, GAPS5, CONTEXTS), &C_QUICK, or_c01()),
                    tf("c01", Chars { n: 3 }, &C_QUICK[..2], or_c01()),
                    prog_variants("c01", &g(1), 1, &C_QUICK[..2], vo_cd, f_c01),
                    tf("c01", lit_texts(2), &C_QUICK[..2], or_c01()),
                    tf("c01", soup(2, GAPS8, &["%", "begin % end"]), &C_QUICK[..2], or_c01()),
                    tf("c01", large_texts(), &C_QUICK[..2], or_c01()),
                    tf("c01", TokenTails, &C_QUICK[..2], or_c01()),
                    tf("c01", Separators, &one, or_c01()),
                    tf("c01words", Texts { name: "capitalised-keyword-near-misses-in-a-statement".into(), items: NearMisses::capitalised_statements() }, &one, or_c01()),
                ]
            } else {
                vec![
                    tf("c01", soup(2, GAPS5, CONTEXTS), &full, or_c01()),
                    tf("c01", soup(3, GAPS3, CONTEXTS), &C_QUICK[..2], or_c01()),
                    tf("c01", Chars { n: 4 }, &C_QUICK[..2], or_c01()),
                    prog_variants("c01", &g(2), 2, &C_QUICK, vo_cd, f_c01),
                    seed_texts("c01", &all_seeds(), &full, f_c01),
                    tf("c01", lit_texts(2), &C_QUICK, or_c01()),
                    seed_mutations("c01", &all_seeds(), &C_QUICK[..2], f_c01),
                    tf("c01", soup(2, GAPS8, CONTEXTS), &C_QUICK, or_c01()),
                    tf("c01", large_texts(), &C_QUICK, or_c01()),
                    tf("c01", TokenTails, &C_QUICK, or_c01()),
                    tf("c01", Separators, &C_QUICK[..2], or_c01()),
                    tf("c01words", Texts { name: "capitalised-keyword-near-misses-in-a-statement".into(), items: NearMisses::capitalised_statements() }, &one, or_c01()),
                    tf("c01", LongTokens { max_len: 300 }, &C_QUICK[..2], or_c01()),
                ]
            }
        }
        "C02" => {
            if quick {
                vec![
                    tf("c02", Texts { name: "line-comment x line-end x successor".into(), items: crate::alphabet::comment_sequences() }, &C_QUICK[..3], Box::new(|x, c, ctx| {
                        let out = ctx.fmt(c, x);
                        o2::c02(x, &out, c, ctx);
                    })),
                    prog_variants("c02", &g(2), 2, &C_QUICK, vo_base, f_c02),
                    prog_variants("c02", &g(1), 1, &C_QUICK[..3], vo_all, f_c02),
                    seed_texts("c02", &wf_seeds(), &C_QUICK, f_c02),
                    tf("c02", lit_texts(2), &C_QUICK[..2], wf_lits(f_c02)),
                    deep_variants("c02", &g(1), 1, 12, &C_QUICK[..3], f_c02),
                    c02_ident_family(&g(2), 2, &C_QUICK[..2]),
                    tf("c02", Separators, &C_QUICK[..2], Box::new(|x, c, ctx| f_c02(x, c, ctx))),
                    tf("c02", two_lits(), &lit_wraps(), wf_lits(f_c02)),
                ]
            } else {
                vec![
                    tf("c02", Texts { name: "line-comment x line-end x successor".into(), items: crate::alphabet::comment_sequences() }, &C_QUICK, Box::new(|x, c, ctx| {
                        let out = ctx.fmt(c, x);
                        o2::c02(x, &out, c, ctx);
                    })),
                    prog_variants("c02", &g(3), 3, &C_QUICK[..3], vo_base, f_c02),
                    prog_variants("c02", &g(2), 2, &C_QUICK, vo_all, f_c02),
                    prog_variants("c02", &g(2), 2, &full, vo_base, f_c02),
                    seed_texts("c02", &wf_seeds(), &full, f_c02),
                    tf("c02", lit_texts(2), &C_QUICK, wf_lits(f_c02)),
                    deep_variants("c02", &g(1), 1, 24, &C_QUICK, f_c02),
                    c02_ident_family(&g(3), 3, &C_QUICK[..2]),
                    tf("c02", two_lits(), &lit_wraps(), wf_lits(f_c02)),
                ]
            }
        }
        "C03" => {
            if quick {
                vec![
                    prog_variants("c03", &g(2), 2, &C_QUICK, vo_base, f_c03),
                    prog_variants("c03", &g(1), 1, &C_QUICK[..3], vo_all, f_c03),
                    seed_texts("c03", &wf_seeds(), &C_QUICK, f_c03),
                    tf("c03", lit_texts(2), &C_QUICK[..2], wf_lits(f_c03)),
                    deep_variants("c03", &g(1), 1, 12, &C_QUICK[..3], f_c03),
                    tf("c03", two_lits(), &lit_wraps(), wf_lits(f_c03)),
                    tf("c03", Separators, &C_QUICK[..2], Box::new(|x, c, ctx| f_c03(x, c, ctx))),
                ]
            } else {
                vec![
                    prog_variants("c03", &g(3), 3, &C_QUICK[..3], vo_base, f_c03),
                    prog_variants("c03", &g(2), 2, &C_QUICK, vo_all, f_c03),
                    prog_variants("c03", &g(2), 2, &full, vo_base, f_c03),
                    seed_texts("c03", &wf_seeds(), &full, f_c03),
                    tf("c03", lit_texts(2), &C_QUICK, wf_lits(f_c03)),
                    deep_variants("c03", &g(1), 1, 24, &C_QUICK, f_c03),
                ]
            }
        }
        "C04" => {
            if quick {
                vec![
                    tf("c04", soup(2, GAPS5, CONTEXTS), &C_QUICK[..2], or_c04()),
                    tf("c04", soup(3, &[" "], &["%"]), &one, or_c04()),
                    tf("c04", Soup { k: 4, sigma: SIGMA_SMALL, gaps: &[" "], contexts: &["%"] }, &one, or_c04()),
                    tf("c04", lit_texts(2), &C_QUICK[..2], or_c04()),
                    tf("c04", Chars { n: 3 }, &one, or_c04()),
                    seed_mutations("c04", &all_seeds(), &C_QUICK[1..2], f_c04),
                    tf("c04", soup(2, GAPS8, &["%", "begin % end"]), &C_QUICK[..2], or_c04()),
                    tf("c04", large_texts(), &C_QUICK[..2], or_c04()),
                    tf("c04", TokenTails, &one, or_c04()),
                    tf("c04", Separators, &one, or_c04()),
                    tf("c04", LongTokens { max_len: 100 }, &one, or_c04()),
                    tf("c04words", Words { max_len: 100, max_align: 40 }, &one, or_c04()),
                    tf("c04fallback", Texts { name: "no-solution-lines-with-multi-byte-runs-at-every-byte-phase".into(), items: c04_fallback_texts() }, &C_QUICK[..2], or_c04()),
                    tf("c04passes", Skeletons { n: 6 }, &one, Box::new(|x, c, ctx| o::c04_passes(x, c, ctx))),
                    tf("c04cursors", soup(2, GAPS3, &["%", "begin % end"]), &one, or_c04_cursors()),
                    Box::new(ScalingFamily { sizes: vec![1, 2, 4, 8, 16, 32, 64], cfgs: vec![cfg::DEFAULT, C_QUICK[1]] }),
                    c04_regions(&g(2), 2, &C_QUICK[..1]),
                ]
            } else {
                vec![
                    tf("c04", soup(3, GAPS3, CONTEXTS), &C_QUICK[..3], or_c04()),
                    tf("c04", Chars { n: 4 }, &C_QUICK[..2], or_c04()),
                    tf("c04", Soup { k: 4, sigma: SIGMA_SMALL, gaps: &[" ", "\n"], contexts: &["%", "begin % end", "type T = class % end;"] }, &C_QUICK[..2], or_c04()),
                    tf("c04", lit_texts(3), &C_QUICK, or_c04()),
                    seed_mutations("c04", &all_seeds(), &C_QUICK, f_c04),
                    tf("c04", soup(2, GAPS8, CONTEXTS), &C_QUICK[..3], or_c04()),
                    tf("c04", large_texts(), &C_QUICK, or_c04()),
                    tf("c04", Chars { n: 5 }, &one, or_c04()),
                    tf("c04", TokenTails, &C_QUICK[..2], or_c04()),
                    tf("c04", Separators, &C_QUICK[..2], or_c04()),
                    tf("c04", LongTokens { max_len: 300 }, &C_QUICK[..2], or_c04()),
                    tf("c04words", Words { max_len: 200, max_align: 64 }, &one, or_c04()),
                    tf("c04fallback", Texts { name: "no-solution-lines-with-multi-byte-runs-at-every-byte-phase".into(), items: c04_fallback_texts() }, &C_QUICK, or_c04()),
                    tf("c04passes", Skeletons { n: 8 }, &one, Box::new(|x, c, ctx| o::c04_passes(x, c, ctx))),
                    tf("c04cursors", soup(2, GAPS5, CONTEXTS), &C_QUICK[..2], or_c04_cursors()),
                    seed_texts("c04cursors", &all_seeds(), &C_QUICK[..2], |x, c, ctx| {
                        use pasfmt_core::prelude::Cursor;
                        for v in o3::cursor_set(x) {
                            let mut one = [Cursor(v)];
                            let _ = ctx.fmt_cursors(c, x, &mut one);
                        }
                    }),
                    Box::new(ScalingFamily { sizes: vec![1, 2, 4, 8, 16, 32, 64, 128, 256], cfgs: C_QUICK[..3].to_vec() }),
                    c04_regions(&g(2), 2, &C_QUICK[..3]),
                    c04_regions(&g(3), 3, &C_QUICK[..1]),
                ]
            }
        }
        "C05" => {
            // wrap_column >= 30: at narrower widths the headers that open blocks are themselves
            // broken over several lines and "the line that opens the block" stops being well defined
            let c05q: Vec<Cfg> = C_QUICK.iter().copied().filter(|c| c.wrap >= 30).collect();
            let c05f: Vec<Cfg> = full.iter().copied().filter(|c| c.wrap >= 30).collect();
            if quick {
                vec![c05_family(&g(2), 2, &c05q, false, false), c05_family(&g(1), 1, &c05q[..3], true, true), c05_family_mode(&g(2), 2, &c05q[..2], false, 2), deep_c05(&g(1), 1, 16, &c05q[..3]), wide_c05(&g(1), &[6000], &c05q[..1])]
            } else {
                vec![
                    c05_family(&g(3), 3, &c05q[..3], false, false),
                    c05_family(&g(2), 2, &c05f, true, false),
                    c05_family(&g(2), 2, &c05q[..2], false, true),
                    deep_c05(&g(1), 1, 24, &c05q),
                    wide_c05(&g(1), &[1000, 6000, 20000], &c05q[..3]),
                    deep_c05(&g(2), 2, 8, &c05q[..2]),
                ]
            }
        }
        "C06" => {
            if quick {
                vec![
                    c06_prog_family(&g(2), 2, &C_QUICK[..2], ro_singles),
                    sf("c06", &wf_seeds(), &C_QUICK[..2], Box::new(|s, c, ctx| progs::c06_relayouts(&s.text, c, &ro_singles(), ctx))),
                    c06_comment_family(&g(1), 1, &C_QUICK[1..2], &[0, 2], &[0, 1]),
                    deep_c06(&g(1), 1, 12, &C_QUICK[..3]),
                    c06_toggle_family(&C_QUICK[..3], ro_deep),
                    wide_c06(&g(1), &[6000], &C_QUICK[..1]),
                ]
            } else {
                vec![
                    c06_prog_family(&g(2), 2, &C_QUICK, ro_deep),
                    c06_prog_family(&g(3), 3, &C_QUICK[..2], ro_singles),
                    sf("c06", &wf_seeds(), &C_QUICK, Box::new(|s, c, ctx| progs::c06_relayouts(&s.text, c, &ro_mid(), ctx))),
                    c06_comment_family(&g(1), 1, &C_QUICK[..3], &[0, 1, 2, 3, 4, 5, 6], &[0, 1, 2]),
                    deep_c06(&g(1), 1, 24, &C_QUICK),
                    c06_toggle_family(&C_QUICK, ro_deep),
                    wide_c06(&g(1), &[1000, 6000, 20000], &C_QUICK[..2]),
                ]
            }
        }
        "C07" => {
            let asm_f = |two: bool, cfgs: &[Cfg]| {
                tf(
                    "c07asm",
                    Texts { name: "asm-bodies".into(), items: c07_asm_texts(two) },
                    cfgs,
                    Box::new(|x, c, ctx| o3::c07(x, None, c, ctx)),
                )
            };
            let seeds_f = |cfgs: &[Cfg]| {
                seed_texts("c07seeds", &all_seeds(), cfgs, |x, c, ctx| {
                    if x.to_ascii_lowercase().contains("pasfmt") || x.to_ascii_lowercase().contains("asm") {
                        o3::c07(x, None, c, ctx)
                    }
                })
            };
            if quick {
                vec![c07_regions(&g(1), 1, &C_QUICK[..2], true), asm_f(false, &C_QUICK), seeds_f(&C_QUICK)]
            } else {
                vec![
                    c07_regions(&g(1), 1, &C_QUICK, true),
                    c07_regions(&g(2), 2, &C_QUICK[1..2], false),
                    asm_f(true, &C_QUICK),
                    seeds_f(&full),
                ]
            }
        }
        "C12" => {
            let base = [
                cfg::DEFAULT,
                cfg::DEFAULT.with(|c| { c.fms = false; c.le = cfg::Le::Crlf; }),
                cfg::DEFAULT.with(|c| { c.tabs = true; c.le = cfg::Le::Crlf; c.wrap = 30; }),
                cfg::DEFAULT.with(|c| { c.wrap = 30; c.tw = 4; c.ci = 1; }),
                cfg::DEFAULT.with(|c| { c.tabs = true; c.fms = false; }),
                cfg::DEFAULT.with(|c| { c.le = cfg::Le::Crlf; c.begin = cfg::BeginStyle::AlwaysWrap; c.tw = 3; }),
                // target indentation of a statement-level literal = 2 tabs / 4 tabs: as many bytes as a 2- / 4-space base
                cfg::DEFAULT.with(|c| { c.tabs = true; c.ci = 1; }),
                cfg::DEFAULT.with(|c| { c.tabs = true; c.ci = 3; }),
            ];
            if quick {
                vec![Box::new(o3::C12Family { max_lines: 2, cfgs: vec![base[0], base[1], base[2], base[3], base[6], base[7]], quotes: vec![3, 5], positions: vec![0, 4, 5, 6, 7, 8, 9, 10] })]
            } else {
                vec![
                    Box::new(o3::C12Family { max_lines: 2, cfgs: base.to_vec(), quotes: vec![3, 5, 7], positions: (0..o3::C12_POSITIONS).collect() }),
                    Box::new(o3::C12Family { max_lines: 3, cfgs: base[..3].to_vec(), quotes: vec![3], positions: vec![0, 4] }),
                ]
            }
        }
        "C15" => {
            let small = |pairs: bool| -> TextOracle {
                Box::new(move |x, c, ctx| {
                    o3::c15(x, c, &o3::C15Opts { singles: true, pairs: pairs && x.len() <= 12 }, ctx)
                })
            };
            let big = |singles: bool| -> fn(&str, &Cfg, &mut Ctx) {
                if singles {
                    |x, c, ctx| o3::c15(x, c, &o3::C15Opts { singles: true, pairs: false }, ctx)
                } else {
                    |x, c, ctx| o3::c15(x, c, &o3::C15Opts { singles: false, pairs: false }, ctx)
                }
            };
            let c15cfg = [C_QUICK[0], C_QUICK[1], C_QUICK[2]];
            // single tokens longer than 64 KiB (every 16-bit offset inside a token overflows)
            let long_tokens = || {
                let words: String = (0..14000).map(|i| format!("w{i:03} ")).collect::<String>();
                let words = words.trim_end().to_string();
                Texts {
                    name: "tokens-longer-than-64KiB".into(),
                    items: vec![
                        format!("a;\n// {words}\nb;\n"),
                        format!("a; {{ {words} }}\nb;\n"),
                        format!("x := '{}';\n", "s".repeat(70000)),
                        format!("{{$R {words}}}\na;\n"),
                        format!("a;\n{{ first line\n{words} }}\nb;\n"),
                        format!("x := {};\n", "i".repeat(70000)),
                    ],
                }
            };
            // disabled regions holding runs of blank lines (and non-ASCII text right behind them), LF and CRLF
            let region_blanks = || {
                let mut items = vec![];
                for nl in ["\n", "\r\n"] {
                    for k in 1..=4usize {
                        let blanks = nl.repeat(k);
                        items.push(format!("{{pasfmt off}}{nl}a{blanks}"));
                        items.push(format!("a  ;{nl}// pasfmt off{nl}b{blanks}\u{e9}x  :=  1;{blanks}// pasfmt on{nl}c  ;{nl}"));
                        items.push(format!("begin{nl}  {{pasfmt off}}{blanks}  x;{blanks}  {{pasfmt on}}{blanks}  y  ;{nl}end."));
                        items.push(format!("asm{blanks}  mov eax, 1{blanks}end;{blanks}"));
                    }
                }
                Texts { name: "disabled-regions-with-blank-line-runs".into(), items }
            };
            let lits = |max_lines: usize| {
                let f = o3::C12Family { max_lines, cfgs: vec![cfg::DEFAULT], quotes: vec![3], positions: vec![0, 4, 5] };
                let items: Vec<String> = (0..f.len()).map(|i| f.build(i).0).collect();
                Texts { name: "ml-literals".into(), items }
            };
            if quick {
                vec![
                    tf("c15", soup(2, GAPS3, &["%", "begin % end"]), &c15cfg[..2], small(true)),
                    tf("c15", Chars { n: 2 }, &c15cfg[..2], small(true)),
                    prog_variants("c15", &g(1), 1, &c15cfg[..2], vo_base, big(true)),
                    seed_texts("c15", &all_seeds(), &c15cfg[..2], big(false)),
                    tf("c15", lits(1), &c15cfg, small(false)),
                    tf("c15", Texts { name: "asm-bodies".into(), items: c07_asm_texts(false) }, &c15cfg[..2], small(false)),
                    tf("c15", TokenTails, &c15cfg[..2], small(false)),
                    tf("c15", long_tokens(), &c15cfg[..1], Box::new(|x, c, ctx| o3::c15(x, c, &o3::C15Opts { singles: false, pairs: false }, ctx))),
                    tf("c15", region_blanks(), &c15cfg, small(false)),
                ]
            } else {
                vec![
                    tf("c15", soup(2, GAPS5, CONTEXTS), &c15cfg, small(true)),
                    tf("c15", Chars { n: 3 }, &c15cfg[..2], small(true)),
                    prog_variants("c15", &g(2), 2, &c15cfg[..2], vo_base, big(true)),
                    prog_variants("c15", &g(1), 1, &c15cfg, vo_cd, big(true)),
                    seed_texts("c15", &all_seeds(), &C_QUICK, big(true)),
                    tf("c15", lits(2), &c15cfg, small(false)),
                    tf("c15", Texts { name: "asm-bodies".into(), items: c07_asm_texts(true) }, &c15cfg, small(false)),
                    tf("c15", TokenTails, &c15cfg, small(false)),
                    tf("c15", long_tokens(), &c15cfg, Box::new(|x, c, ctx| o3::c15(x, c, &o3::C15Opts { singles: false, pairs: false }, ctx))),
                    tf("c15", region_blanks(), &C_QUICK, small(false)),
                ]
            }
        }
        "C08" => {
            if quick {
                vec![
                    tf("c08", soup(2, GAPS5, CONTEXTS), &C_QUICK, or_c08(false)),
                    tf("c08", Chars { n: 3 }, &C_QUICK[..2], or_c08(false)),
                    prog_variants("c08eof", &g(2), 2, &C_QUICK, vo_base, f_c08_eof),
                    prog_variants("c08eof", &g(1), 1, &C_QUICK[..3], vo_cd, f_c08_eof),
                    c08_trailing_comments(&g(2), 2, &C_QUICK[..2]),
                    c08_toggle_at_eof(&g(1), 1, &C_QUICK[..3]),
                    seed_texts("c08eof", &wf_seeds(), &C_QUICK, f_c08_eof),
                    tf("c08", lit_texts(2), &C_QUICK[..3], or_c08(false)),
                    tf("c08", soup(2, GAPS8, &["%", "begin % end"]), &C_QUICK[..3], or_c08(false)),
                    deep_variants("c08eof", &g(1), 1, 12, &C_QUICK[..3], f_c08_eof),
                    tf("c08", large_texts(), &C_QUICK[..2], or_c08(false)),
                    tf("c08", TokenTails, &C_QUICK[..2], or_c08(false)),
                    tf("c08", Separators, &C_QUICK[..2], or_c08(true)),
                ]
            } else {
                vec![
                    tf("c08", soup(2, GAPS5, CONTEXTS), &full, or_c08(false)),
                    tf("c08", soup(3, GAPS3, CONTEXTS), &C_QUICK[..2], or_c08(false)),
                    tf("c08", Chars { n: 4 }, &C_QUICK[..2], or_c08(false)),
                    prog_variants("c08eof", &g(2), 2, &full, vo_all, f_c08_eof),
                    prog_variants("c08eof", &g(3), 3, &C_QUICK[..2], vo_base, f_c08_eof),
                    c08_trailing_comments(&g(2), 2, &C_QUICK),
                    c08_toggle_at_eof(&g(2), 2, &C_QUICK[..3]),
                    seed_texts("c08eof", &wf_seeds(), &full, f_c08_eof),
                    tf("c08", lit_texts(2), &C_QUICK, or_c08(false)),
                    tf("c08", soup(2, GAPS8, CONTEXTS), &C_QUICK, or_c08(false)),
                    tf("c08", large_texts(), &C_QUICK, or_c08(false)),
                    seed_mutations("c08", &all_seeds(), &C_QUICK[..2], |x, c, ctx| { let out = ctx.fmt(c, x); o::c08(x, &out, c, &o::C08Opts { eof_clause: false }, ctx); }),
                ]
            }
        }
        "C09" => {
            let others: Vec<Cfg> = C_QUICK[..4].to_vec();
            if quick {
                vec![
                    tf("c09", soup(2, GAPS5, CONTEXTS), &others[..2], Box::new(|x, c, ctx| o2::c09(x, c, ctx))),
                    tf("c09", Chars { n: 3 }, &others[..2], Box::new(|x, c, ctx| o2::c09(x, c, ctx))),
                    pf("c09", &g(1), 1, &others, Box::new(|_g, toks, c, ctx| {
                        let t = progs::base_texts(toks);
                        c09_variants(&t[0], c, true, ctx);
                        ctx.sub_eval();
                        c09_variants(&t[2], c, false, ctx);
                    })),
                    sf("c09", &all_seeds(), &others[..2], Box::new(|s, c, ctx| c09_variants(&s.text, c, false, ctx))),
                    // indentations of more than 64 and 128 columns (deep nests under wide tab widths)
                    deep_variants("c09", &g(1), 1, 20, &[others[3], others[1]], |x, c, ctx| o2::c09(x, c, ctx)),
                    // mis-indented multi-line literals with something behind the closing quotes, at every width
                    // of a range: whether the line is wrapped again after the literal moved must not depend on
                    // line endings
                    tf("c09lits", two_lits(), &others[..1], Box::new(|x, c, ctx| {
                        for w in 24..=56u32 {
                            if w > 24 {
                                ctx.sub_eval();
                            }
                            c09_variants(x, &c.with(|k| k.wrap = w), false, ctx);
                        }
                    })),
                    tf("c09lits", one_lit_texts(), &others[..1], Box::new(|x, c, ctx| {
                        for w in 20..=64u32 {
                            if w > 20 {
                                ctx.sub_eval();
                            }
                            c09_variants(x, &c.with(|k| k.wrap = w), false, ctx);
                        }
                    })),
                ]
            } else {
                vec![
                    tf("c09", soup(2, GAPS5, CONTEXTS), &others, Box::new(|x, c, ctx| o2::c09(x, c, ctx))),
                    tf("c09", Chars { n: 4 }, &others[..2], Box::new(|x, c, ctx| o2::c09(x, c, ctx))),
                    pf("c09", &g(2), 2, &others, Box::new(|_g, toks, c, ctx| {
                        let t = progs::base_texts(toks);
                        c09_variants(&t[0], c, true, ctx);
                        ctx.sub_eval();
                        c09_variants(&t[2], c, false, ctx);
                    })),
                    sf("c09", &all_seeds(), &others, Box::new(|s, c, ctx| c09_variants(&s.text, c, true, ctx))),
                    tf("c09lits", one_lit_texts(), &others[..2], Box::new(|x, c, ctx| {
                        for w in 16..=100u32 {
                            if w > 16 {
                                ctx.sub_eval();
                            }
                            c09_variants(x, &c.with(|k| k.wrap = w), true, ctx);
                        }
                    })),
                    tf("c09lits", two_lits(), &others[..2], Box::new(|x, c, ctx| {
                        for w in 16..=100u32 {
                            if w > 16 {
                                ctx.sub_eval();
                            }
                            c09_variants(x, &c.with(|k| k.wrap = w), true, ctx);
                        }
                    })),
                ]
            }
        }
        "C10" => {
            let tws: &'static [u8] = if quick { &[0, 1, 2, 4, 8, 85] } else { &[0, 1, 2, 3, 4, 8, 16, 17, 85, 127, 128, 255] };
            let cis: &'static [u8] = if quick { &[0, 1, 2, 3, 4] } else { &[0, 1, 2, 3, 4, 15, 16, 127, 255] };
            // (for the unit clause, including products beyond the u8 boundary)
            let cis_sat: &'static [u8] = if quick { &[0, 1, 3, 4, 255] } else { &[0, 1, 2, 3, 4, 15, 16, 127, 255] };
            let bases = [cfg::DEFAULT, cfg::DEFAULT.with(|c| { c.begin = cfg::BeginStyle::AlwaysWrap; c.le = cfg::Le::Crlf; })];
            let body = move |x: &str, c: &Cfg, ctx: &mut Ctx| {
                let mut first = true;
                for &tw in tws {
                    for &ci in cis {
                        if !first { ctx.sub_eval(); }
                        first = false;
                        o2::c10_pair(x, tw, ci, c, ctx);
                    }
                }
                ctx.sub_eval();
                o2::c10_linear(x, cis, c, ctx);
                ctx.sub_eval();
                // (hard tabs know no 255-column budget: continuation tabs stay linear beyond ci x tw = 255)
                o2::c10_linear(x, cis_sat, c, ctx);
                ctx.sub_eval();
                o2::c10_units(x, tws, cis_sat, c, ctx);
            };
            let d = if quick { 1 } else { 2 };
            vec![
                pf("c10", &g(d), d, &bases, Box::new(move |_g, toks, c, ctx| {
                    let t = progs::base_texts(toks);
                    body(&t[1], c, ctx);
                })),
                sf("c10", &wf_seeds(), &bases[..if quick { 1 } else { 2 }], Box::new(move |s, c, ctx| body(&s.text, c, ctx))),
                // indentations wider than 65 535 columns (every 16-bit column count overflows)
                tf("c10conts", Texts { name: "1..14-nested-forced-breaks(calls,brackets,operators)".into(), items: c10_continuation_texts() }, &bases[..1], Box::new(move |x, c, ctx| {
                    body(x, c, ctx);
                    ctx.sub_eval();
                    o2::c10_bracket_conts(x, c, ctx);
                })),
                tf("c10deep", Texts { name: "300-nested-blocks-and-continuations".into(), items: vec![
                    format!("{}x;{}", "begin ".repeat(300), " end;".repeat(300)),
                    format!("{}x := f(a, // c\n b);{}", "begin ".repeat(270), " end;".repeat(270)),
                    format!("{}Foo(Alpha, Beta); y := Bar(Gamma + Delta, Epsilon);{}", "begin ".repeat(265), " end;".repeat(265)),
                ] }, &bases[..1], Box::new(|x, c, ctx| {
                    for (tw, ci) in [(255u8, 0u8), (255, 1), (2, 2)] {
                        ctx.sub_eval();
                        o2::c10_pair(x, tw, ci, c, ctx);
                    }
                    ctx.sub_eval();
                    o2::c10_units(x, &[255], &[0, 1], c, ctx);
                })),
            ]
        }
        "C11" => {
            // a dense range of widths (every column from 8 to 130) plus a few large ones
            let ws: Vec<u32> = if quick { (8..=100).chain([120, 160, 200, 4294967295]).collect() } else { (8..=140).chain([160, 200, 250, 4294967295]).collect() };
            let ws: &'static [u32] = Box::leak(ws.into_boxed_slice());
            let bases = [
                cfg::DEFAULT,
                cfg::DEFAULT.with(|c| c.begin = cfg::BeginStyle::AlwaysWrap),
                cfg::DEFAULT.with(|c| { c.tw = 4; c.ci = 1; }),
                cfg::DEFAULT.with(|c| { c.begin = cfg::BeginStyle::AlwaysWrap; c.tw = 4; c.ci = 1; }),
            ];
            let d = if quick { 2 } else { 3 };
            let nb = if quick { 2 } else { 4 };
            // hard tabs: one tab is one column for the wrapper and for the measure alike
            let tabbed = [cfg::DEFAULT.with(|c| { c.tabs = true; c.tw = 4; }), cfg::DEFAULT.with(|c| { c.tabs = true; c.tw = 8; c.ci = 1; c.begin = cfg::BeginStyle::AlwaysWrap; })];
            let dt = if quick { 1 } else { 2 };
            vec![
                pf("c11tabs", &g(dt), dt, &tabbed[..if quick { 1 } else { 2 }], Box::new(move |_g, toks, c, ctx| {
                    let t = progs::base_texts(toks);
                    o2::c11_dense(&t[1], ws, c, c11_tag(toks), ctx);
                })),
                sf("c11tabs", &wf_seeds(), &tabbed[..1], Box::new(move |s, c, ctx| o2::c11_dense(&s.text, ws, c, None, ctx))),
                pf("c11", &g(d), d, &bases[..1], Box::new(move |_g, toks, c, ctx| {
                    let t = progs::base_texts(toks);
                    o2::c11_dense(&t[1], ws, c, c11_tag(toks), ctx);
                })),
                pf("c11", &g(2), 2, &bases[1..nb], Box::new(move |_g, toks, c, ctx| {
                    let t = progs::base_texts(toks);
                    o2::c11_dense(&t[1], ws, c, c11_tag(toks), ctx);
                })),
                pf("c11comments", &g(1), 1, &bases[..nb], Box::new(move |_g, toks, c, ctx| {
                    // trailing and own-line comments in every gap (un-normalised ones included)
                    use crate::layout::{self, Base};
                    let l0 = layout::base_gaps(toks, Base::L0);
                    let frozen = layout::frozen_gaps(toks);
                    let mut first = true;
                    for i in 1..toks.len() {
                        if frozen[i] {
                            continue;
                        }
                        for (k, p) in [(2usize, 2usize), (3, 2), (0, 0), (2, 1)] {
                            if !first {
                                ctx.sub_eval();
                            }
                            first = false;
                            o2::c11_dense(&layout::with_comment(toks, &l0, i, k, p), ws, c, c11_tag(toks), ctx);
                        }
                    }
                })),
                sf("c11", &wf_seeds(), &bases[..nb], Box::new(move |s, c, ctx| o2::c11_dense(&s.text, ws, c, None, ctx))),
                // non-ASCII identifiers and literals: lines are longer in bytes than in characters; the
                // wrapper counts bytes and so does the measure
                pf("c11bytes", &g(dt), dt, &bases[..1], Box::new(move |_g, toks, c, ctx| {
                    let t = progs::base_texts(toks);
                    o2::c11_dense_bytes(&o2::non_ascii_variant(&t[1]), ws, c, c11_tag(toks), ctx);
                })),
                sf("c11bytes", &wf_seeds(), &bases[..1], Box::new(move |s, c, ctx| o2::c11_dense_bytes(&o2::non_ascii_variant(&s.text), ws, c, None, ctx))),
                tf("c11litfirst", Texts { name: "multi-line-token-first-in-its-line-with-wrappable-tail".into(), items: c11_literal_first_texts() }, &bases[..nb],
                   Box::new(move |x, c, ctx| o2::c11_dense_bytes(x, ws, c, None, ctx))),
                tf("c11lits", two_lits(), &bases[..1], wf_lits_box(Box::new(move |x, c, ctx| o2::c11_dense(x, ws, c, Some("multi-line-literals"), ctx)))),
                // single logical lines of several thousand tokens (generated tables): budgets of the search
                // (iteration limit) must not make the outcome depend on the width
                tf("c11big", Texts { name: "long-logical-lines".into(), items: c11_big_texts(if quick { 3000 } else { 6000 }) }, &bases[..1],
                   Box::new(|x, c, ctx| o2::c11_dense(x, &[20, 25, 30, 38, 39, 40, 60, 80, 120, 200], c, None, ctx))),
            ]
        }
        "C13" => {
            let near = || Texts { name: "keyword-near-misses".into(), items: NearMisses::all() };
            if quick {
                vec![
                    tf("c13", Chars { n: 4 }, &one, or_c13()),
                    tf("c13", soup(2, GAPS5, CONTEXTS), &one, or_c13()),
                    tf("c13words", Words { max_len: 100, max_align: 40 }, &one, or_c13_words()),
                    tf("c13", KeywordCases, &one, or_c13()),
                    tf("c13", near(), &one, or_c13()),
                    tf("c13", lit_texts(1), &one, or_c13()),
                    tf("c13", LongTokens { max_len: 100 }, &one, or_c13()),
                    tf("c13", TokenTails, &one, or_c13()),
                    tf("c13", Texts { name: "directive-expressions".into(), items: crate::alphabet::directive_expressions() }, &one, or_c13()),
                    prog_variants("c13", &g(1), 1, &one, vo_cd, f_c13),
                    seed_texts("c13", &all_seeds(), &one, f_c13),
                ]
            } else {
                vec![
                    tf("c13", Chars { n: 5 }, &one, or_c13()),
                    tf("c13", soup(2, GAPS5, CONTEXTS), &one, or_c13()),
                    tf("c13", soup(3, GAPS3, &["%", "asm % end"]), &one, or_c13()),
                    tf("c13words", Words { max_len: 200, max_align: 64 }, &one, or_c13_words()),
                    tf("c13", KeywordCases, &one, or_c13()),
                    tf("c13", near(), &one, or_c13()),
                    tf("c13", lit_texts(2), &one, or_c13()),
                    tf("c13", LongTokens { max_len: 300 }, &one, or_c13()),
                    tf("c13", TokenTails, &one, or_c13()),
                    tf("c13", Texts { name: "directive-expressions".into(), items: crate::alphabet::directive_expressions() }, &one, or_c13()),
                    prog_variants("c13", &g(2), 2, &one, vo_cd, f_c13),
                    seed_texts("c13", &all_seeds(), &C_QUICK, f_c13),
                ]
            }
        }
        "C14" => {
            if quick {
                vec![
                    tf("c14", Texts { name: "directive-ladders(n<=100,150,300; 3 shapes)".into(), items: crate::alphabet::directive_ladders(100) }, &one, or_c14(true)),
                    tf("c14", soup(2, GAPS5, CONTEXTS), &one, or_c14(false)),
                    tf("c14", Chars { n: 3 }, &one, or_c14(false)),
                    tf("c14", Skeletons { n: 6 }, &one, or_c14(false)),
                    prog_variants("c14wf", &g(2), 2, &one, vo_base, f_c14_wf),
                    prog_variants("c14wf", &g(1), 1, &one, vo_all, f_c14_wf),
                    prog_variants("c14wf", &g(2), 2, &one, vo_dirs, f_c14_wf),
                    seed_texts("c14wf", &wf_seeds(), &one, f_c14_wf),
                ]
            } else {
                vec![
                    tf("c14", Texts { name: "directive-ladders(n<=100,150,300; 3 shapes)".into(), items: crate::alphabet::directive_ladders(100) }, &one, or_c14(true)),
                    tf("c14", soup(3, GAPS3, CONTEXTS), &one, or_c14(false)),
                    tf("c14", Chars { n: 4 }, &one, or_c14(false)),
                    tf("c14", Skeletons { n: 8 }, &one, or_c14(false)),
                    tf("c14", Soup { k: 4, sigma: SIGMA_SMALL, gaps: &[" "], contexts: &["%"] }, &one, or_c14(false)),
                    prog_variants("c14wf", &g(3), 3, &one, vo_base, f_c14_wf),
                    prog_variants("c14wf", &g(2), 2, &one, vo_all, f_c14_wf),
                    seed_texts("c14wf", &wf_seeds(), &one, f_c14_wf),
                ]
            }
        }
        "C18" => {
            use crate::sched::{C18Family, FILE_KINDS};
            let n = FILE_KINDS.len();
            // every ordered list of file kinds up to the given length
            let lists = |max: usize, kinds: usize| -> Vec<Vec<usize>> {
                let mut out: Vec<Vec<usize>> = vec![];
                let mut cur: Vec<Vec<usize>> = vec![vec![]];
                for _ in 0..max {
                    let mut next = vec![];
                    for l in &cur {
                        for k in 0..kinds {
                            let mut m = l.clone();
                            m.push(k);
                            next.push(m);
                        }
                    }
                    out.extend(next.iter().cloned());
                    cur = next;
                }
                out
            };
            // every list of up to three files over {anon-short, anon-long, same-length-change}, narrow width, no
            // re-indentation of multi-line strings (another path through the line wrapper)
            let shape_lists = || {
                let ks = [9usize, 10, 0];
                let mut out: Vec<Vec<usize>> = vec![];
                for a in ks {
                    out.push(vec![a]);
                    for b in ks {
                        out.push(vec![a, b]);
                        for c in ks {
                            out.push(vec![a, b, c]);
                        }
                    }
                }
                out
            };
            let narrow_no_fms = cfg::DEFAULT.with(|c| { c.wrap = 60; c.fms = false; });
            if quick {
                vec![
                    Box::new(C18Family { lists: lists(2, n), workers: vec![1, 2], modes: vec!["files", "check"], bound: 2, aliased: false, cfg: cfg::DEFAULT }),
                    Box::new(C18Family { lists: lists(3, 5), workers: vec![2, 3], modes: vec!["files"], bound: 1, aliased: false, cfg: cfg::DEFAULT }),
                    Box::new(C18Family { lists: lists(1, 4), workers: vec![2], modes: vec!["files"], bound: 2, aliased: true, cfg: cfg::DEFAULT }),
                    Box::new(C18Family { lists: shape_lists(), workers: vec![1, 2], modes: vec!["files", "check"], bound: 2, aliased: false, cfg: narrow_no_fms }),
                ]
            } else {
                vec![
                    Box::new(C18Family { lists: lists(3, n), workers: vec![1, 2, 3], modes: vec!["files", "check"], bound: 2, aliased: false, cfg: cfg::DEFAULT }),
                    Box::new(C18Family { lists: lists(2, n), workers: vec![2, 3], modes: vec!["files", "check"], bound: 3, aliased: false, cfg: cfg::DEFAULT }),
                    Box::new(C18Family { lists: lists(2, 5), workers: vec![2, 3], modes: vec!["files", "check"], bound: 3, aliased: true, cfg: cfg::DEFAULT }),
                    Box::new(C18Family { lists: shape_lists(), workers: vec![1, 2, 3], modes: vec!["files", "check"], bound: 3, aliased: false, cfg: narrow_no_fms }),
                ]
            }
        }
        _ => vec![],
    }
}

fn cfg_of(case: &Value) -> Cfg {
    serde_json::from_value(case["cfg"].clone()).unwrap_or(cfg::DEFAULT)
}

/// replays one explicit case; returns false when the oracle name is unknown
pub fn replay(case: &Value, ctx: &mut Ctx) -> bool {
    let input = case["input"].as_str().unwrap_or("").to_string();
    let c = cfg_of(case);
    // A family runs thousands of texts and configurations in one process; a replay starts from a fresh one.
    // State of the subject that outlives a call (a cache kept per thread or per process) would make a finding
    // of the family irreproducible here, so the text is first formatted under a sweep of configurations.
    if !input.is_empty() && input.len() < 100_000 && !matches!(case["oracle"].as_str().unwrap_or(""), "c13" | "c13words" | "c14" | "c18" | "c04scaling") {
        for other in C_QUICK.iter().chain(crate::cfg::c_full().iter()) {
            let _ = ctx.fmt(other, &input);
        }
    }
    match case["oracle"].as_str().unwrap_or("") {
        "c01" => {
            let out = ctx.fmt(&c, &input);
            o::c01(&input, &out, &c, ctx);
        }
        "c04" if case["kind"].is_u64() && case["sizes"].is_array() => {
            // a crash / hang met by the scaling family
            let sizes: Vec<usize> = case["sizes"].as_array().unwrap().iter().map(|v| v.as_u64().unwrap_or(1) as usize).collect();
            o::c04_scaling(case["kind"].as_u64().unwrap() as usize, &c, &sizes, ctx);
        }
        "c04" if case["cursor_list"].as_array().map_or(false, |a| !a.is_empty()) => {
            use pasfmt_core::prelude::Cursor;
            let mut cur: Vec<Cursor> = case["cursor_list"].as_array().unwrap().iter().map(|v| Cursor(v.as_u64().unwrap_or(0) as u32)).collect();
            let _ = ctx.fmt_cursors(&c, &input, &mut cur);
        }
        "c04" => {
            let _ = ctx.fmt(&c, &input);
            use pasfmt_core::prelude::Cursor;
            if input.len() <= 64 {
                for v in o3::cursor_set(&input) {
                    let mut one = [Cursor(v)];
                    let _ = ctx.fmt_cursors(&c, &input, &mut one);
                }
            }
        }
        "c04passes" => o::c04_passes(&input, &c, ctx),
        "c04scaling" => o::c04_scaling(
            case["kind"].as_u64().unwrap_or(0) as usize,
            &c,
            &[1, 2, 4, 8, case["n"].as_u64().unwrap_or(16) as usize],
            ctx,
        ),
        "c08" => {
            let out = ctx.fmt(&c, &input);
            let eof = case["eof_clause"].as_bool().unwrap_or(false);
            o::c08(&input, &out, &c, &o::C08Opts { eof_clause: eof }, ctx);
        }
        "c13" => o::c13(&input, ctx),
        "c13words" => {
            o::c13(&input, ctx);
            o::c13_ident_routines(&input, ctx);
        }
        "c18" => crate::sched::replay(case, ctx),
        "c07" => o3::c07_eof(&input, case["prefix_len"].as_u64().map(|n| n as usize), case["eof_clause"].as_bool().unwrap_or(false), &c, ctx),
        "c12" => {
            // (state that outlives one formatter - caches keyed without the configuration - only shows after
            // other configurations ran in the same process: replay the sweep the family makes)
            for other in C_QUICK.iter().chain(crate::cfg::c_full().iter()) {
                let _ = ctx.fmt(other, &input);
            }
            o3::c12(&input, &c, ctx)
        }
        "c15" => {
            let cur: Vec<u32> = case["cursors"].as_array().map(|a| a.iter().filter_map(|v| v.as_u64()).map(|v| v as u32).collect()).unwrap_or_default();
            let _ = cur;
            o3::c15(&input, &c, &o3::C15Opts { singles: input.len() <= 5000, pairs: input.len() <= 12 }, ctx);
        }
        "c02" => {
            let out = ctx.fmt(&c, &input);
            if o2::c02(&input, &out, &c, ctx) {
                if let Some(ids) = case["identifiers"].as_array() {
                    // identifiers (by ordinal among the non-comment tokens) whose text must survive exactly
                    let keep = |t: &&crate::refscan::Tok| !matches!(t.kind, crate::refscan::Kind::Comment(_) | crate::refscan::Kind::CompilerDirective | crate::refscan::Kind::Conditional(_));
                    let (tx, to) = (crate::refscan::scan(&input), crate::refscan::scan(&out));
                    let (kx, ko): (Vec<_>, Vec<_>) = (tx.iter().filter(keep).collect(), to.iter().filter(keep).collect());
                    for i in ids.iter().filter_map(|v| v.as_u64()).map(|v| v as usize) {
                        if i < kx.len() && i < ko.len() && kx[i].text(&input) != ko[i].text(&out) {
                            ctx.fail("C02", "identifier-text-changed", format!("{:?} became {:?}", kx[i].text(&input), ko[i].text(&out)), case.clone());
                        }
                    }
                }
            }
        }
        "c03" => o2::c03(&input, &c, ctx),
        "c05" => {
            let toks: Vec<crate::grammar::GTok> = case["gtoks"]
                .as_array()
                .map(|a| {
                    a.iter()
                        .map(|t| crate::grammar::GTok {
                            text: t[0].as_str().unwrap_or("").to_string(),
                            marks: t[1].as_u64().unwrap_or(0) as u16,
                            pop_k: t[2].as_u64().unwrap_or(0) as u8,
                            pop_o: t[3].as_u64().unwrap_or(0) as u8,
                            hard_nl: false,
                            starts: vec![],
                        })
                        .collect()
                })
                .unwrap_or_default();
            let out = ctx.fmt(&c, &input);
            if o2::c02(&input, &out, &c, ctx) {
                o2::c05(&input, &toks, &out, &c, ctx);
            }
        }
        "c06" => {
            let input2 = case["input2"].as_str().unwrap_or("").to_string();
            o2::c06(&input, &input2, &c, ctx);
        }
        "c09" => o2::c09(&input, &c, ctx),
        "c10" => o2::c10_pair(
            &input,
            case["tw"].as_u64().unwrap_or(2) as u8,
            case["ci"].as_u64().unwrap_or(2) as u8,
            &c,
            ctx,
        ),
        "c10_units" => o2::c10_units(
            &input,
            &[case["tw"].as_u64().unwrap_or(2) as u8],
            &[case["ci"].as_u64().unwrap_or(2) as u8],
            &c,
            ctx,
        ),
        "c10_brackets" => o2::c10_bracket_conts(&input, &c, ctx),
        "c10_linear" => o2::c10_linear(&input, &[case["ci"].as_u64().unwrap_or(2) as u8], &c, ctx),
        "c11" => o2::c11_dense_bytes(
            &input,
            &[case["w1"].as_u64().unwrap_or(30) as u32, case["w2"].as_u64().unwrap_or(120) as u32],
            &c,
            None,
            ctx,
        ),
        "c14" => {
            // (state that outlives one parse - tables kept per thread - only shows after other texts were
            // parsed in the same process: parse texts with a consumed compiler directive at every index first)
            {
                use pasfmt_core::prelude::{DelphiLexer, DelphiLogicalLineParser, Lexer, LogicalLineParser};
                for k in 0..96 {
                    let t = format!("{}{{$R+}} x; {{$ifdef A}} y; {{$endif}}", "a ".repeat(k));
                    let _ = DelphiLogicalLineParser {}.parse(DelphiLexer {}.lex(&t));
                }
            }
            o::c14(
                &input,
                &o::C14Opts {
                    well_formed: case["well_formed"].as_bool().unwrap_or(false),
                },
                ctx,
            )
        }
        _ => return false,
    }
    true
}
