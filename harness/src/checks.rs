//! Registry: which families of cases make up each check at each tier, and replay dispatch.
use crate::alphabet::{Chars, Soup, CONTEXTS, GAPS3, GAPS5, SIGMA};
use crate::cfg::{self, Cfg, C_QUICK};
use crate::oracles as o;
use crate::runner::{Ctx, Family};
use serde_json::{json, Value};

pub trait TextSource: Send + Sync {
    fn name(&self) -> String;
    fn len(&self) -> u64;
    fn get(&self, idx: u64, buf: &mut String);
    fn edges(&self) -> u64 {
        1
    }
}

impl TextSource for Soup {
    fn name(&self) -> String {
        format!(
            "soup(k={},|Σ|={},gaps={},contexts={})",
            self.k,
            self.sigma.len(),
            self.gaps.len(),
            self.contexts.len()
        )
    }
    fn len(&self) -> u64 {
        Soup::len(self)
    }
    fn get(&self, idx: u64, buf: &mut String) {
        Soup::get(self, idx, buf);
    }
    fn edges(&self) -> u64 {
        self.k as u64
    }
}

impl TextSource for Chars {
    fn name(&self) -> String {
        format!("chars(n={},|Γ|={})", self.n, crate::alphabet::GAMMA.len())
    }
    fn len(&self) -> u64 {
        Chars::len(self)
    }
    fn get(&self, idx: u64, buf: &mut String) {
        Chars::get(self, idx, buf);
    }
    fn edges(&self) -> u64 {
        self.n as u64
    }
}

pub struct Texts {
    pub name: String,
    pub items: Vec<String>,
}
impl TextSource for Texts {
    fn name(&self) -> String {
        format!("{}({})", self.name, self.items.len())
    }
    fn len(&self) -> u64 {
        self.items.len() as u64
    }
    fn get(&self, idx: u64, buf: &mut String) {
        buf.clear();
        buf.push_str(&self.items[idx as usize]);
    }
}

pub type TextOracle = Box<dyn Fn(&str, &Cfg, &mut Ctx) + Send + Sync>;

/// texts × configurations, oracle(text, cfg)
pub struct TextFamily {
    pub label: String,
    pub src: Box<dyn TextSource>,
    pub cfgs: Vec<Cfg>,
    pub oracle: TextOracle,
    pub horizon_ms: u64,
}

impl Family for TextFamily {
    fn name(&self) -> String {
        format!("{}:{}x{}cfg", self.label, self.src.name(), self.cfgs.len())
    }
    fn len(&self) -> u64 {
        self.src.len() * self.cfgs.len() as u64
    }
    fn run(&self, idx: u64, ctx: &mut Ctx) {
        let nc = self.cfgs.len() as u64;
        let mut buf = String::new();
        self.src.get(idx / nc, &mut buf);
        (self.oracle)(&buf, &self.cfgs[(idx % nc) as usize], ctx);
    }
    fn describe(&self, idx: u64) -> Value {
        let nc = self.cfgs.len() as u64;
        let mut buf = String::new();
        self.src.get(idx / nc, &mut buf);
        json!({"input": buf, "cfg": self.cfgs[(idx % nc) as usize]})
    }
    fn horizon_ms(&self) -> u64 {
        self.horizon_ms
    }
    fn transitions_per_case(&self) -> u64 {
        self.src.edges() + 1
    }
}

fn tf(label: &str, src: impl TextSource + 'static, cfgs: &[Cfg], oracle: TextOracle) -> Box<dyn Family> {
    Box::new(TextFamily {
        label: label.to_string(),
        src: Box::new(src),
        cfgs: cfgs.to_vec(),
        oracle,
        horizon_ms: 1500,
    })
}

fn soup(k: u32, gaps: &'static [&'static str], contexts: &'static [&'static str]) -> Soup {
    Soup {
        k,
        sigma: SIGMA,
        gaps,
        contexts,
    }
}

pub fn crashes_charged_to(check: &str) -> Option<String> {
    if check == "C04" {
        Some("C04".to_string())
    } else {
        None
    }
}

fn or_c01() -> TextOracle {
    Box::new(|x, c, ctx| {
        let out = ctx.fmt(c, x);
        o::c01(x, &out, c, ctx);
    })
}
fn or_c08(eof_clause: bool) -> TextOracle {
    Box::new(move |x, c, ctx| {
        let out = ctx.fmt(c, x);
        o::c08(x, &out, c, &o::C08Opts { eof_clause }, ctx);
    })
}
fn or_c13() -> TextOracle {
    Box::new(|x, _c, ctx| o::c13(x, ctx))
}
fn or_c14(well_formed: bool) -> TextOracle {
    Box::new(move |x, _c, ctx| o::c14(x, &o::C14Opts { well_formed }, ctx))
}
fn or_c04() -> TextOracle {
    Box::new(|x, c, ctx| {
        let out = ctx.fmt(c, x);
        if out != x {
            ctx.nontrivial();
        }
    })
}

pub fn families(check: &str, tier: &str) -> Vec<Box<dyn Family>> {
    let quick = tier == "quick";
    let one = [cfg::DEFAULT];
    match check {
        "C01" => {
            if quick {
                vec![
                    tf("c01", soup(2, GAPS5, CONTEXTS), &C_QUICK, or_c01()),
                    tf("c01", Chars { n: 3 }, &C_QUICK[..2], or_c01()),
                ]
            } else {
                vec![
                    tf("c01", soup(2, GAPS5, CONTEXTS), &cfg::c_full(), or_c01()),
                    tf("c01", soup(3, GAPS3, CONTEXTS), &C_QUICK[..2], or_c01()),
                    tf("c01", Chars { n: 4 }, &C_QUICK[..2], or_c01()),
                ]
            }
        }
        "C04" => {
            if quick {
                vec![
                    tf("c04", soup(2, GAPS5, CONTEXTS), &C_QUICK[..2], or_c04()),
                    tf("c04", soup(3, &[" "], &["%"]), &one, or_c04()),
                ]
            } else {
                vec![
                    tf("c04", soup(3, GAPS3, CONTEXTS), &C_QUICK[..3], or_c04()),
                    tf("c04", Chars { n: 4 }, &C_QUICK[..2], or_c04()),
                ]
            }
        }
        "C08" => {
            if quick {
                vec![
                    tf("c08", soup(2, GAPS5, CONTEXTS), &C_QUICK, or_c08(false)),
                    tf("c08", Chars { n: 3 }, &C_QUICK[..2], or_c08(false)),
                ]
            } else {
                vec![
                    tf("c08", soup(2, GAPS5, CONTEXTS), &cfg::c_full(), or_c08(false)),
                    tf("c08", soup(3, GAPS3, CONTEXTS), &C_QUICK[..2], or_c08(false)),
                    tf("c08", Chars { n: 4 }, &C_QUICK[..2], or_c08(false)),
                ]
            }
        }
        "C13" => {
            if quick {
                vec![
                    tf("c13", Chars { n: 4 }, &one, or_c13()),
                    tf("c13", soup(2, GAPS5, CONTEXTS), &one, or_c13()),
                ]
            } else {
                vec![
                    tf("c13", Chars { n: 5 }, &one, or_c13()),
                    tf("c13", soup(2, GAPS5, CONTEXTS), &one, or_c13()),
                ]
            }
        }
        "C14" => {
            if quick {
                vec![
                    tf("c14", soup(2, GAPS5, CONTEXTS), &one, or_c14(false)),
                    tf("c14", Chars { n: 3 }, &one, or_c14(false)),
                ]
            } else {
                vec![
                    tf("c14", soup(3, GAPS3, CONTEXTS), &one, or_c14(false)),
                    tf("c14", Chars { n: 4 }, &one, or_c14(false)),
                ]
            }
        }
        _ => vec![],
    }
}

fn cfg_of(case: &Value) -> Cfg {
    serde_json::from_value(case["cfg"].clone()).unwrap_or(cfg::DEFAULT)
}

/// replays one explicit case; returns false when the oracle name is unknown
pub fn replay(case: &Value, ctx: &mut Ctx) -> bool {
    let input = case["input"].as_str().unwrap_or("").to_string();
    let c = cfg_of(case);
    match case["oracle"].as_str().unwrap_or("") {
        "c01" => {
            let out = ctx.fmt(&c, &input);
            o::c01(&input, &out, &c, ctx);
        }
        "c04" => {
            let _ = ctx.fmt(&c, &input);
        }
        "c08" => {
            let out = ctx.fmt(&c, &input);
            let eof = case["eof_clause"].as_bool().unwrap_or(false);
            o::c08(&input, &out, &c, &o::C08Opts { eof_clause: eof }, ctx);
        }
        "c13" => o::c13(&input, ctx),
        "c14" => o::c14(
            &input,
            &o::C14Opts {
                well_formed: case["well_formed"].as_bool().unwrap_or(false),
            },
            ctx,
        ),
        _ => return false,
    }
    true
}
