//! Formatter configurations: a plain value type that is turned into the real
//! `FormattingConfig` through the same TOML deserialisation the CLI uses.
use pasfmt::{make_formatter, FormattingConfig};
use pasfmt_core::prelude::Formatter;
use serde::{Deserialize, Serialize};

#[derive(Debug, Clone, Copy, PartialEq, Eq, Hash, Serialize, Deserialize)]
pub enum BeginStyle {
    Auto,
    AlwaysWrap,
}

#[derive(Debug, Clone, Copy, PartialEq, Eq, Hash, Serialize, Deserialize)]
pub enum Le {
    Lf,
    Crlf,
}

#[derive(Debug, Clone, Copy, PartialEq, Eq, Hash, Serialize, Deserialize)]
pub struct Cfg {
    pub wrap: u32,
    pub begin: BeginStyle,
    pub fms: bool,
    pub tabs: bool,
    pub tw: u8,
    pub ci: u8,
    pub le: Le,
}

pub const DEFAULT: Cfg = Cfg {
    wrap: 120,
    begin: BeginStyle::Auto,
    fms: true,
    tabs: false,
    tw: 2,
    ci: 2,
    le: Le::Lf,
};

impl Cfg {
    pub fn toml(&self) -> String {
        format!(
            "wrap_column = {}\nbegin_style = \"{}\"\nformat_multiline_strings = {}\nuse_tabs = {}\ntab_width = {}\ncontinuation_indents = {}\nline_ending = \"{}\"\n",
            self.wrap,
            match self.begin {
                BeginStyle::Auto => "auto",
                BeginStyle::AlwaysWrap => "always_wrap",
            },
            self.fms,
            self.tabs,
            self.tw,
            self.ci,
            match self.le {
                Le::Lf => "lf",
                Le::Crlf => "crlf",
            }
        )
    }

    /// `-C key=value` arguments for the CLI
    pub fn cli_args(&self) -> Vec<String> {
        self.toml()
            .lines()
            .map(|l| {
                let (k, v) = l.split_once(" = ").unwrap();
                format!("-C{}={}", k, v.trim_matches('"'))
            })
            .collect()
    }

    pub fn formatter(&self) -> Formatter {
        let fc: FormattingConfig =
            toml::from_str(&self.toml()).expect("configuration must deserialise");
        make_formatter(&fc)
    }

    pub fn nl(&self) -> &'static str {
        match self.le {
            Le::Lf => "\n",
            Le::Crlf => "\r\n",
        }
    }

    /// the indentation unit as the reconstructor renders it
    pub fn indent_unit(&self) -> String {
        if self.tabs {
            "\t".to_string()
        } else {
            " ".repeat(self.tw as usize)
        }
    }

    /// the continuation unit (with the documented u8 saturation)
    pub fn cont_unit(&self) -> String {
        if self.tabs {
            "\t".repeat(self.ci as usize)
        } else {
            " ".repeat((self.ci as usize * self.tw as usize).min(255))
        }
    }

    pub fn with(mut self, f: impl FnOnce(&mut Cfg)) -> Cfg {
        f(&mut self);
        self
    }
}

const fn c(wrap: u32, begin: BeginStyle, fms: bool, tabs: bool, tw: u8, ci: u8, le: Le) -> Cfg {
    Cfg {
        wrap,
        begin,
        fms,
        tabs,
        tw,
        ci,
        le,
    }
}

use BeginStyle::{AlwaysWrap as AW, Auto as AU};
use Le::{Crlf, Lf};

/// 6 fixed configurations that contain every level of every option
/// (wrap {16,30,60,120,max}, begin {auto,always}, fms {t,f}, tabs {f,t}, tw {0,1,2,3,4,8},
/// ci {0,1,2,3}, le {lf,crlf}).
pub const C_QUICK: [Cfg; 6] = [
    c(120, AU, true, false, 2, 2, Lf),
    c(30, AW, true, true, 4, 1, Crlf),
    c(16, AU, false, false, 3, 3, Lf),
    c(60, AW, true, false, 8, 0, Crlf),
    c(4294967295, AU, true, false, 1, 2, Lf),
    c(30, AW, false, false, 0, 1, Crlf),
];

/// A strength-2 covering array over the option levels above (every pair of levels of every two
/// options co-occurs in at least one row); verified by `covering_array_is_pairwise` at start-up
/// of the checks that use it.
pub fn c_full() -> Vec<Cfg> {
    // Greedy construction, deterministic: enumerate the full product in a fixed order and keep
    // a row whenever it covers a not-yet-covered pair, until all pairs are covered.
    let wraps = [16u32, 30, 60, 120, 4294967295];
    let begins = [AU, AW];
    let fmss = [true, false];
    let tabss = [false, true];
    let tws = [0u8, 1, 2, 3, 4, 8];
    let cis = [0u8, 1, 2, 3];
    let les = [Lf, Crlf];
    let mut all = Vec::new();
    for &w in &wraps {
        for &b in &begins {
            for &f in &fmss {
                for &t in &tabss {
                    for &tw in &tws {
                        for &ci in &cis {
                            for &le in &les {
                                all.push(c(w, b, f, t, tw, ci, le));
                            }
                        }
                    }
                }
            }
        }
    }
    fn levels(x: &Cfg) -> [u32; 7] {
        [
            x.wrap,
            x.begin as u32,
            x.fms as u32,
            x.tabs as u32,
            x.tw as u32,
            x.ci as u32,
            x.le as u32,
        ]
    }
    use std::collections::HashSet;
    let mut uncovered: HashSet<(usize, u32, usize, u32)> = HashSet::new();
    for x in &all {
        let l = levels(x);
        for i in 0..7 {
            for j in (i + 1)..7 {
                uncovered.insert((i, l[i], j, l[j]));
            }
        }
    }
    let mut rows: Vec<Cfg> = C_QUICK.to_vec();
    for x in &rows {
        let l = levels(x);
        for i in 0..7 {
            for j in (i + 1)..7 {
                uncovered.remove(&(i, l[i], j, l[j]));
            }
        }
    }
    while !uncovered.is_empty() {
        // pick the candidate covering the most uncovered pairs (first in order on ties)
        let mut best = (0usize, 0usize);
        for (k, x) in all.iter().enumerate() {
            let l = levels(x);
            let mut n = 0;
            for i in 0..7 {
                for j in (i + 1)..7 {
                    if uncovered.contains(&(i, l[i], j, l[j])) {
                        n += 1;
                    }
                }
            }
            if n > best.0 {
                best = (n, k);
            }
        }
        let x = all[best.1];
        let l = levels(&x);
        for i in 0..7 {
            for j in (i + 1)..7 {
                uncovered.remove(&(i, l[i], j, l[j]));
            }
        }
        rows.push(x);
    }
    rows
}
