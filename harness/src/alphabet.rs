//! Σ (token alphabet), Γ (character alphabet), gaps and contexts; and the "soup" families
//! enumerating Σ^{≤k} × gaps × contexts and Γ^{≤n}.

/// Σ — simplest first.
pub const SIGMA: &[&str] = &[
    // identifiers, numbers, literals
    "a", "Foo", "&begin", "1", "$F", "%1", "1.5e3", "'s'", "#13", "'a''b'",
    // operators
    ";", ",", ":", ":=", "=", "<", ">", "<>", "<=", ">=", "(", ")", "[", "]", "(.", ".)", "^",
    "@", ".", "..", "+", "-", "*", "/",
    // block openers / closers and statement keywords
    "begin", "end", "if", "then", "else", "case", "of", "for", "to", "downto", "in", "do",
    "while", "repeat", "until", "try", "except", "finally", "on", "with", "raise", "at", "goto",
    "inherited", "asm", "label",
    // sections and declarations
    "unit", "program", "library", "package", "interface", "implementation", "initialization",
    "finalization", "uses", "exports", "requires", "contains", "type", "const", "var",
    "threadvar", "resourcestring", "class", "record", "object", "dispinterface", "packed",
    "array", "set", "file", "string", "helper", "reference", "property", "procedure", "function",
    "constructor", "destructor", "operator",
    // visibility and directives
    "private", "protected", "public", "published", "strict", "automated", "abstract", "virtual",
    "override", "overload", "static", "inline", "forward", "external", "name", "index", "message",
    "deprecated", "platform", "stdcall", "read", "write", "default", "stored", "implements",
    "absolute", "out", "sealed", "final", "delayed",
    // operator words
    "and", "or", "not", "xor", "div", "mod", "shl", "shr", "is", "as", "nil",
    // comments
    "{c}", "(*c*)", "//c\n", "// c  \n", "{c\nd}", "//d",
    // directives
    "{$ifdef A}", "{$if B}", "{$else}", "{$elseif C}", "{$endif}", "{$r+}",
    // toggles
    "{pasfmt off}", "{pasfmt on}",
    // error tokens
    "?", "\"", "'u", "{u", "#",
    // multi-line string
    "'''\n  m\n '''",
];

pub const GAPS3: &[&str] = &["", " ", "\n"];
pub const GAPS5: &[&str] = &["", " ", "\n", "\n\n\n", "  \t "];
/// with a lone CR (not a line break for the formatter, but a blank) and CRLF
pub const GAPS8: &[&str] = &["", " ", "\n", "\n\n\n", "  \t ", "\r", "\r ", "\r\n  "];

/// contexts: `%` is replaced by the soup
pub const CONTEXTS: &[&str] = &[
    "%",
    "begin % end",
    "type T = class % end;",
    "procedure P; %",
    "case x of % end",
    "f( % )",
    "{$ifdef A} % {$else} x {$endif}",
    "asm % end",
    "interface % implementation",
    "x := procedure % ;",
    "try % except % end",
    "type T = record case % of 1: ( % ) end;",
];

/// Γ — one representative per lexer dispatch class and per UTF-8 length.
pub const GAMMA: &[&str] = &[
    "a", "z", "A", "Z", "_", "0", "1", "9", "e", "E", "x", "$", "%", "&", "#", "'", "\"", "{", "}",
    "(", ")", "*", "/", ".", ":", "=", "<", ">", "+", "-", ",", ";", "[", "]", "^", "@", "?", " ",
    "\t", "\n", "\r", "\u{1}", "\u{7f}", "é", "日", "\u{3000}", "😀",
    // neighbours of the one non-ASCII blank and Unicode spaces that are NOT Delphi blanks
    "\u{3001}", "\u{2fff}", "\u{a0}", "\u{2003}",
    // a byte order mark as text, the Unicode line separator, NEL
    "\u{feff}", "\u{2028}", "\u{85}",
];

/// number of strings of length <= k over an alphabet of n symbols
pub fn count_upto(n: u64, k: u32) -> u64 {
    (0..=k).map(|j| n.pow(j)).sum()
}

/// decode idx into a string (sequence of symbol indices) of length <= k, shortest first
pub fn decode_upto(mut idx: u64, n: u64, k: u32, out: &mut Vec<usize>) {
    out.clear();
    let mut len = 0u32;
    loop {
        let c = n.pow(len);
        if idx < c {
            break;
        }
        idx -= c;
        len += 1;
        assert!(len <= k);
    }
    for _ in 0..len {
        out.push((idx % n) as usize);
        idx /= n;
    }
    out.reverse();
}

/// Σ^{≤k} × gaps × contexts
pub struct Soup {
    pub k: u32,
    pub sigma: &'static [&'static str],
    pub gaps: &'static [&'static str],
    pub contexts: &'static [&'static str],
}

impl Soup {
    fn block(&self, l: u32) -> u64 {
        let g = if l >= 2 { self.gaps.len() as u64 } else { 1 };
        (self.sigma.len() as u64).pow(l) * g * self.contexts.len() as u64
    }
    pub fn len(&self) -> u64 {
        (0..=self.k).map(|l| self.block(l)).sum()
    }
    /// returns (text, number of tokens); injective: the gap only varies when there are >= 2 tokens
    pub fn get(&self, mut idx: u64, buf: &mut String) -> usize {
        let mut l = 0u32;
        while idx >= self.block(l) {
            idx -= self.block(l);
            l += 1;
            assert!(l <= self.k);
        }
        let nc = self.contexts.len() as u64;
        let ng = if l >= 2 { self.gaps.len() as u64 } else { 1 };
        let ctx = self.contexts[(idx % nc) as usize];
        let gap = self.gaps[((idx / nc) % ng) as usize];
        let mut t = idx / nc / ng;
        let n = self.sigma.len() as u64;
        let mut toks = vec![0usize; l as usize];
        for i in (0..l as usize).rev() {
            toks[i] = (t % n) as usize;
            t /= n;
        }
        let mut soup = String::new();
        for (i, t) in toks.iter().enumerate() {
            if i > 0 {
                soup.push_str(gap);
            }
            soup.push_str(self.sigma[*t]);
        }
        buf.clear();
        buf.push_str(&ctx.replace('%', &soup));
        toks.len()
    }
}

/// Γ^{≤n}
pub struct Chars {
    pub n: u32,
}
impl Chars {
    pub fn len(&self) -> u64 {
        count_upto(GAMMA.len() as u64, self.n)
    }
    pub fn get(&self, idx: u64, buf: &mut String) -> usize {
        let mut toks = Vec::new();
        decode_upto(idx, GAMMA.len() as u64, self.n, &mut toks);
        buf.clear();
        for t in &toks {
            buf.push_str(GAMMA[*t]);
        }
        toks.len()
    }
}

/// a reduced token alphabet for longer soups: structure-bearing keywords and punctuation
pub const SIGMA_SMALL: &[&str] = &[
    "a", "1", "'s'", ";", ",", ":", ":=", "=", "<", ">", "(", ")", "[", "]", "^", ".", "+",
    "begin", "end", "if", "then", "else", "case", "of", "for", "do", "try", "except", "with",
    "raise", "type", "const", "var", "class", "record", "property", "procedure", "function",
    "read", "index", "private", "strict", "interface", "uses", "asm", "{$ifdef A}", "{$else}",
    "{$endif}", "//c\n", "{c}",
];

/// Words for the identifier-scanner family: every length 1..=max_len at every alignment
/// 0..=max_align, followed by each delimiter class, with a special character at every position.
pub struct Words {
    pub max_len: usize,
    pub max_align: usize,
}
pub const WORD_DELIMS: &[&str] = &["", " ", ";", ".", "(", "'", "{", "\n", "\u{3000}", "é", "#", "&", "\u{1}", "\u{3001}"];
/// (placement kind) 0 = plain ascii word; 1.. = special char kinds placed at a position
pub const WORD_SPECIALS: &[&str] = &["é", "日", "\u{3000}", "9", "_", "😀", "\u{3001}", "Z"];
pub const WORD_ALIGNS_SPECIAL: &[usize] = &[0, 1, 7, 31, 32, 33];
impl Words {
    /// (A) plain words: len x align x delim x prefix kind; (B) one special char at every position:
    /// len x 6 alignments x special x position (delimiter " ")
    fn count_a(&self) -> u64 {
        self.max_len as u64 * (self.max_align as u64 + 1) * WORD_DELIMS.len() as u64 * 2
    }
    fn count_b(&self) -> u64 {
        let positions: u64 = (1..=self.max_len as u64).sum();
        positions * WORD_ALIGNS_SPECIAL.len() as u64 * WORD_SPECIALS.len() as u64
    }
    pub fn len(&self) -> u64 {
        self.count_a() + self.count_b()
    }
    /// returns the byte offset at which the word starts
    pub fn get(&self, mut idx: u64, buf: &mut String) -> usize {
        let letters = b"abcdefghijklmnopqrstuvwxyz";
        buf.clear();
        if idx < self.count_a() {
            let prefix_kind = (idx % 2) as usize;
            idx /= 2;
            let nd = WORD_DELIMS.len() as u64;
            let delim = WORD_DELIMS[(idx % nd) as usize];
            idx /= nd;
            let na = self.max_align as u64 + 1;
            let align = (idx % na) as usize;
            idx /= na;
            let l = idx as usize + 1;
            for k in 0..align {
                buf.push(if prefix_kind == 0 { ' ' } else if k % 2 == 0 { ';' } else { ' ' });
            }
            for k in 0..l {
                buf.push(letters[k % 26] as char);
            }
            buf.push_str(delim);
            buf.push('x');
            return align;
        }
        idx -= self.count_a();
        let ns = WORD_SPECIALS.len() as u64;
        let sp = WORD_SPECIALS[(idx % ns) as usize];
        idx /= ns;
        let na = WORD_ALIGNS_SPECIAL.len() as u64;
        let align = WORD_ALIGNS_SPECIAL[(idx % na) as usize];
        idx /= na;
        // idx enumerates (len, pos) with pos < len
        let mut l = 1usize;
        while idx >= l as u64 {
            idx -= l as u64;
            l += 1;
        }
        let pos = idx as usize;
        for _ in 0..align {
            buf.push(' ');
        }
        for k in 0..l {
            if k == pos {
                buf.push_str(sp);
            } else {
                buf.push(letters[k % 26] as char);
            }
        }
        buf.push_str(" x");
        align
    }
}

/// conditional-directive skeletons: every string over this 9-symbol alphabet up to a length
pub const SKELETON: &[&str] = &["{$ifdef A}", "{$elseif B}", "{$else}", "{$endif}", "x;", "begin", "end", "(", ")"];
pub struct Skeletons {
    pub n: u32,
}
impl Skeletons {
    pub fn len(&self) -> u64 {
        count_upto(SKELETON.len() as u64, self.n)
    }
    pub fn get(&self, idx: u64, buf: &mut String) {
        let mut toks = Vec::new();
        decode_upto(idx, SKELETON.len() as u64, self.n, &mut toks);
        buf.clear();
        for (i, t) in toks.iter().enumerate() {
            if i > 0 {
                buf.push(if i % 2 == 0 { ' ' } else { '\n' });
            }
            buf.push_str(SKELETON[*t]);
        }
    }
}

/// scaling constructs for the polynomial-work clause: (name, builder(n))
pub fn scaling_input(kind: usize, n: usize) -> String {
    let rep = |s: &str, n: usize| s.repeat(n);
    match kind {
        0 => format!("x := {}a{};", rep("(", n), rep(")", n)),
        1 => format!("x := {}b{};", rep("a(", n), rep(")", n)),
        2 => format!("x := {}a{};", rep("[", n), rep("]", n)),
        3 => format!("x: {}T{};", rep("A<", n), rep(">", n)),
        4 => format!("{}x;{}", rep("begin ", n), rep(" end;", n)),
        5 => format!("{}x;", rep("if a then ", n)),
        6 => format!("{}x;{}", rep("case x of 1: ", n), rep(" end;", n)),
        7 => format!("x := {}a;{};", rep("procedure begin ", n), rep(" end", n)),
        8 => format!("{}x;{}", rep("{$ifdef A} ", n), rep(" {$endif}", n)),
        9 => rep("{$ifdef A} x; {$else} y; {$endif}\n", n),
        10 => format!("x := a{};", rep(" + a", n)),
        11 => format!("f(a{});", rep(", a", n)),
        12 => format!("uses a{};", rep(", a", n)),
        13 => format!("x := a{};", rep(".b", n)),
        14 => rep("{$ifdef A} begin {$else} end; {$endif}\n", n),
        15 => format!("{}x;{}", rep("{$ifdef A} {$ifdef B} x; {$else} ", n), rep(" {$endif} {$endif}", n)),
        // the same nests after a long file of small child-bearing statements (state that the
        // formatter keeps per file - caches, maps, counters - is then far from empty); the cost of
        // the prefix alone (n = 0) is subtracted by the oracle
        16 => format!("{}{}x;{}", rep("if a then begin b; end;\n", 5000), rep("if a then begin ", n), rep(" end;", n)),
        17 => format!("{}{}x;{}", rep("while a do b;\ncase c of 1: d; end;\n", 2500), rep("case x of 1: begin ", n), rep(" end; end;", n)),
        18 => format!("{}x := {}a{};", rep("f(a, b);\nx := procedure begin a; end;\n", 2500), rep("f(", n), rep(")", n)),
        _ => unreachable!(),
    }
}
pub const SCALING_KINDS: usize = 19;
/// kinds whose input starts with a long fixed prefix
pub const SCALING_PREFIXED: usize = 16;

/// a handful of large inputs (sizes beyond every u8 / u16 counter of the pipeline)
pub fn large_inputs() -> Vec<String> {
    let n = 70_000;
    vec![
        "a;".repeat(n),
        "a;\n".repeat(n),
        format!("a{}b", "\n".repeat(n)),
        format!("a{}b", " ".repeat(n)),
        format!("a{}b;", "\r\n".repeat(n)),
        format!("{};", "x".repeat(n)),
        format!("// {}\na;", "c".repeat(n)),
        format!("{{ {} }} a;", "c\n".repeat(n)),
        format!("x := '{}';", "s".repeat(n)),
        format!("x := {}1;", "1 + ".repeat(n / 4)),
        format!("f({}a);", "a, ".repeat(n / 4)),
        format!("{}x;{}", "begin ".repeat(300), " end;".repeat(300)),
        format!("x := '''\n{}  ''';", "  m\n".repeat(n / 4)),
        format!("{}\n", "{$ifdef A} a; {$endif}\n".repeat(3000)),
        format!("type T = class\n{}end;", "  f: Integer;\n".repeat(n / 8)),
        format!("{}a;", "\u{3000}".repeat(n)),
    ]
}

/// comments and literals of every form whose body ends in every pair of Gamma characters
pub struct TokenTails;
const TAIL_OPENERS: [(&str, &str); 9] = [("//", "\n"), ("///", "\n"), ("// ", "\n"), ("{", "}"), ("(*", "*)"), ("{$R ", "}"), ("'", "'"), ("{ ", " }"), ("//x", "")];
impl TokenTails {
    pub fn len(&self) -> u64 {
        (TAIL_OPENERS.len() * 3 * GAMMA.len() * (GAMMA.len() + 1)) as u64
    }
    pub fn get(&self, mut idx: u64, buf: &mut String) {
        let n = GAMMA.len() as u64;
        let b = GAMMA[(idx % n) as usize];
        idx /= n;
        let a = if idx % (n + 1) == n { "" } else { GAMMA[(idx % (n + 1)) as usize] };
        idx /= n + 1;
        let lead = ["", "x", "a; "][(idx % 3) as usize];
        idx /= 3;
        let (open, close) = TAIL_OPENERS[idx as usize];
        buf.clear();
        buf.push_str(lead);
        buf.push_str(open);
        buf.push_str(a);
        buf.push_str(b);
        buf.push_str(close);
        buf.push_str("b;");
    }
}

/// long tokens: every token kind at every length 1..=max_len and a few alignments
pub struct LongTokens {
    pub max_len: usize,
}
const LT_KINDS: usize = 12;
const LT_ALIGNS: [usize; 5] = [0, 1, 31, 32, 33];
impl LongTokens {
    pub fn len(&self) -> u64 {
        (LT_KINDS * self.max_len * LT_ALIGNS.len() * WORD_DELIMS.len()) as u64
    }
    pub fn get(&self, mut idx: u64, buf: &mut String) {
        let delim = WORD_DELIMS[(idx % WORD_DELIMS.len() as u64) as usize];
        idx /= WORD_DELIMS.len() as u64;
        let align = LT_ALIGNS[(idx % LT_ALIGNS.len() as u64) as usize];
        idx /= LT_ALIGNS.len() as u64;
        let l = (idx % self.max_len as u64) as usize + 1;
        let kind = (idx / self.max_len as u64) as usize;
        buf.clear();
        for _ in 0..align {
            buf.push(' ');
        }
        let rep = |c: &str, n: usize| c.repeat(n);
        let tok = match kind {
            0 => rep("7", l),
            1 => format!("${}", rep("F", l)),
            2 => format!("%{}", rep("1", l)),
            3 => format!("1.{}e+{}", rep("5", l), rep("3", l.min(4))),
            4 => format!("'{}'", rep("s", l)),
            5 => rep("#13", l),
            6 => format!("{{{}}}", rep("c", l)),
            7 => format!("(*{}*)", rep("c", l)),
            8 => format!("//{}\n", rep("c", l)),
            9 => format!("{{$if {}}}", rep("d", l)),
            10 => format!("1_{}", rep("0_", l)),
            _ => format!("'{}'", rep("''", l)),
        };
        buf.push_str(&tok);
        buf.push_str(delim);
        buf.push('x');
    }
}

/// line comments made of a run of one punctuation character (separator lines and near misses):
/// `//` or `///`, the character 1..=12 times, 0..=2 trailing blanks of two kinds, optional text
pub struct Separators;
const SEP_CHARS: [&str; 11] = ["-", "=", "*", "/", "#", "_", "~", ".", "\u{2550}", "\u{e9}", "\u{1f600}"];
impl Separators {
    pub fn len(&self) -> u64 {
        (2 * SEP_CHARS.len() * 12 * 5 * 3) as u64
    }
    pub fn get(&self, mut idx: u64, buf: &mut String) {
        let mut pick = |n: u64| {
            let v = idx % n;
            idx /= n;
            v as usize
        };
        let slashes = ["//", "///"][pick(2)];
        let ch = SEP_CHARS[pick(SEP_CHARS.len() as u64)];
        let n = pick(12) + 1;
        let trail = ["", " ", "  ", "\t", " \t "][pick(5)];
        let place = pick(3);
        buf.clear();
        let c = format!("{slashes}{}{trail}", ch.repeat(n));
        match place {
            0 => buf.push_str(&format!("{c}\na;\n")),
            1 => buf.push_str(&format!("begin\n  a; {c}\n  b;\nend;\n")),
            _ => buf.push_str(&format!("type\n  T = class\n    {c}\n    f: T;\n  end;\n")),
        }
    }
}


/// conditional-directive ladders and nests of n branches (the parser walks one pass per branch)
pub fn directive_ladders(max_n: usize) -> Vec<String> {
    let mut out = vec![];
    let mut sizes: Vec<usize> = (1..=max_n).collect();
    sizes.extend([150, 300]);
    for n in sizes {
        // {$IF c0} x0; {$ELSEIF c1} x1; ... {$ELSE} xn; {$ENDIF}
        let mut s = String::from("begin\n{$IF c0}\n  x0;\n");
        for i in 1..n {
            s.push_str(&format!("{{$ELSEIF c{i}}}\n  x{i} := {i};\n"));
        }
        s.push_str("{$ELSE}\n  y;\n{$ENDIF}\n  z;\nend.\n");
        out.push(s);
        // {$IFDEF a0} x0 {$ELSE} {$IFDEF a1} x1 {$ELSE} ... {$ENDIF} {$ENDIF}
        let mut s = String::from("begin\n");
        for i in 0..n {
            s.push_str(&format!("{{$IFDEF a{i}}} x{i}; {{$ELSE}} "));
        }
        s.push_str("y;");
        for _ in 0..n {
            s.push_str(" {$ENDIF}");
        }
        s.push_str("\n  z;\nend.\n");
        out.push(s);
        // the same ladder inside one expression
        let mut s = String::from("x := {$IF c0} 0");
        for i in 1..n {
            s.push_str(&format!(" {{$ELSEIF c{i}}} {i}"));
        }
        s.push_str(" {$ELSE} -1 {$ENDIF};\n");
        out.push(s);
    }
    out
}


/// a line comment, each kind of line end (LF, CRLF, lone CR, CR CR LF, CR blank LF), and what may follow it
/// (comments of every kind, code, a literal), in three places
pub fn comment_sequences() -> Vec<String> {
    let mut out = vec![];
    for c1 in ["//a", "// a ", "///d", "//"] {
        for sep in ["\n", "\r\n", "\r", "\r\r\n", "\r \n", "\r    "] {
            for next in ["{b} y", "//c\n y", "(*b*) y", "y", "{b\nc} y", "'s'", "{$R+} y", "// pasfmt off\n y"] {
                out.push(format!("f(x, {c1}{sep}{next},\n  z);\n"));
                out.push(format!("begin\n  a; {c1}{sep}{next};\nend.\n"));
                out.push(format!("{c1}{sep}{next};\n"));
            }
        }
    }
    out
}


/// conditional directives with an expression ($IF / $ELSEIF, both bracket styles, several spellings) whose
/// expression hides the closing bracket inside a string, a nested comment or directive, or a line comment
pub fn directive_expressions() -> Vec<String> {
    let mut out = vec![];
    let bodies = ["don't", "x = 'abc", "s = '''\nit's }\n'''", "B = '}'", "{$i foo} = 0", "A // c }\n > 1", "(* x *) > 1", "'*)' <> s", "Defined(X)", "{ c } or {$define y} z", "s = '' '}' ''", "", " "];
    for kw in ["if", "elseif", "ELSEIF", "ElseIf", "IF", "ifopt", "elseif\t"] {
        for body in bodies {
            for (open, close) in [("{$", "}"), ("(*$", "*)")] {
                let d = format!("{open}{kw} {body}{close}");
                out.push(format!("{d} x;\n"));
                out.push(format!("{{$if a}} y; {d} x; {{$endif}}\n"));
                out.push(format!("begin\n  z := 1 {d} + 2 {{$endif}};\nend.\n"));
                out.push(format!("a {d}"));
                out.push(format!("{d}\n  x := 'q';\n  y := '}}';\n"));
            }
        }
    }
    out
}
