//! Σ (token alphabet), Γ (character alphabet), gaps and contexts; and the "soup" families
//! enumerating Σ^{≤k} × gaps × contexts and Γ^{≤n}.

/// Σ — simplest first.
pub const SIGMA: &[&str] = &[
    // identifiers, numbers, literals
    "a", "Foo", "&begin", "1", "$F", "%1", "1.5e3", "'s'", "#13", "'a''b'",
    // operators
    ";", ",", ":", ":=", "=", "<", ">", "<>", "<=", ">=", "(", ")", "[", "]", "(.", ".)", "^",
    "@", ".", "..", "+", "-", "*", "/",
    // block openers / closers and statement keywords
    "begin", "end", "if", "then", "else", "case", "of", "for", "to", "downto", "in", "do",
    "while", "repeat", "until", "try", "except", "finally", "on", "with", "raise", "at", "goto",
    "inherited", "asm", "label",
    // sections and declarations
    "unit", "program", "library", "package", "interface", "implementation", "initialization",
    "finalization", "uses", "exports", "requires", "contains", "type", "const", "var",
    "threadvar", "resourcestring", "class", "record", "object", "dispinterface", "packed",
    "array", "set", "file", "string", "helper", "reference", "property", "procedure", "function",
    "constructor", "destructor", "operator",
    // visibility and directives
    "private", "protected", "public", "published", "strict", "automated", "abstract", "virtual",
    "override", "overload", "static", "inline", "forward", "external", "name", "index", "message",
    "deprecated", "platform", "stdcall", "read", "write", "default", "stored", "implements",
    "absolute", "out", "sealed", "final", "delayed",
    // operator words
    "and", "or", "not", "xor", "div", "mod", "shl", "shr", "is", "as", "nil",
    // comments
    "{c}", "(*c*)", "//c\n", "// c  \n", "{c\nd}",
    // directives
    "{$ifdef A}", "{$if B}", "{$else}", "{$elseif C}", "{$endif}", "{$r+}",
    // toggles
    "{pasfmt off}", "{pasfmt on}",
    // error tokens
    "?", "\"", "'u", "{u", "#",
    // multi-line string
    "'''\n  m\n '''",
];

pub const GAPS3: &[&str] = &["", " ", "\n"];
pub const GAPS5: &[&str] = &["", " ", "\n", "\n\n\n", "  \t "];

/// contexts: `%` is replaced by the soup
pub const CONTEXTS: &[&str] = &[
    "%",
    "begin % end",
    "type T = class % end;",
    "procedure P; %",
    "case x of % end",
    "f( % )",
    "{$ifdef A} % {$else} x {$endif}",
    "asm % end",
    "interface % implementation",
    "x := procedure % ;",
    "try % except % end",
    "type T = record case % of 1: ( % ) end;",
];

/// Γ — one representative per lexer dispatch class and per UTF-8 length.
pub const GAMMA: &[&str] = &[
    "a", "z", "A", "Z", "_", "0", "1", "9", "e", "E", "x", "$", "%", "&", "#", "'", "\"", "{", "}",
    "(", ")", "*", "/", ".", ":", "=", "<", ">", "+", "-", ",", ";", "[", "]", "^", "@", "?", " ",
    "\t", "\n", "\r", "\u{1}", "\u{7f}", "é", "日", "\u{3000}", "😀",
];

/// number of strings of length <= k over an alphabet of n symbols
pub fn count_upto(n: u64, k: u32) -> u64 {
    (0..=k).map(|j| n.pow(j)).sum()
}

/// decode idx into a string (sequence of symbol indices) of length <= k, shortest first
pub fn decode_upto(mut idx: u64, n: u64, k: u32, out: &mut Vec<usize>) {
    out.clear();
    let mut len = 0u32;
    loop {
        let c = n.pow(len);
        if idx < c {
            break;
        }
        idx -= c;
        len += 1;
        assert!(len <= k);
    }
    for _ in 0..len {
        out.push((idx % n) as usize);
        idx /= n;
    }
    out.reverse();
}

/// Σ^{≤k} × gaps × contexts
pub struct Soup {
    pub k: u32,
    pub sigma: &'static [&'static str],
    pub gaps: &'static [&'static str],
    pub contexts: &'static [&'static str],
}

impl Soup {
    fn block(&self, l: u32) -> u64 {
        let g = if l >= 2 { self.gaps.len() as u64 } else { 1 };
        (self.sigma.len() as u64).pow(l) * g * self.contexts.len() as u64
    }
    pub fn len(&self) -> u64 {
        (0..=self.k).map(|l| self.block(l)).sum()
    }
    /// returns (text, number of tokens); injective: the gap only varies when there are >= 2 tokens
    pub fn get(&self, mut idx: u64, buf: &mut String) -> usize {
        let mut l = 0u32;
        while idx >= self.block(l) {
            idx -= self.block(l);
            l += 1;
            assert!(l <= self.k);
        }
        let nc = self.contexts.len() as u64;
        let ng = if l >= 2 { self.gaps.len() as u64 } else { 1 };
        let ctx = self.contexts[(idx % nc) as usize];
        let gap = self.gaps[((idx / nc) % ng) as usize];
        let mut t = idx / nc / ng;
        let n = self.sigma.len() as u64;
        let mut toks = vec![0usize; l as usize];
        for i in (0..l as usize).rev() {
            toks[i] = (t % n) as usize;
            t /= n;
        }
        let mut soup = String::new();
        for (i, t) in toks.iter().enumerate() {
            if i > 0 {
                soup.push_str(gap);
            }
            soup.push_str(self.sigma[*t]);
        }
        buf.clear();
        buf.push_str(&ctx.replace('%', &soup));
        toks.len()
    }
}

/// Γ^{≤n}
pub struct Chars {
    pub n: u32,
}
impl Chars {
    pub fn len(&self) -> u64 {
        count_upto(GAMMA.len() as u64, self.n)
    }
    pub fn get(&self, idx: u64, buf: &mut String) -> usize {
        let mut toks = Vec::new();
        decode_upto(idx, GAMMA.len() as u64, self.n, &mut toks);
        buf.clear();
        for t in &toks {
            buf.push_str(GAMMA[*t]);
        }
        toks.len()
    }
}
