//! C18 — a CHESS-style, preemption-bounded, replayable scheduler over the scheduling points that the
//! `verif` shim of `pasfmt_orchestrator` reports, and the stateless DFS explorer on top of it.
//!
//! Exactly one worker runs between two points (a baton is handed over at every point), so every
//! execution is sequentially consistent and fully determined by its choice sequence.
use crate::cfg;
use crate::runner::{Ctx, Family};
use pasfmt::FormattingConfig;
use pasfmt_orchestrator::predule::*;
use pasfmt_orchestrator::verif::{set_runtime, Runtime};
use serde_json::{json, Value};
use std::path::{Path, PathBuf};
use std::sync::{Arc, Condvar, Mutex};

pasfmt_config!(
    #[command(bin_name = "pasfmt")]
    Config<FormattingConfig>
);

#[derive(Debug, Clone)]
pub struct PointInfo {
    /// candidate workers in canonical order (the running worker first if it can continue)
    pub candidates: Vec<usize>,
    /// does picking an alternative (index >= 1) cost a preemption?
    pub preemptive: bool,
    pub chosen: usize,
}

#[derive(Default)]
struct State {
    workers: usize,
    entered: usize,
    current: Option<usize>,
    alive: Vec<bool>,
    prefix: Vec<usize>,
    points: Vec<PointInfo>,
    trace: Vec<String>,
    diverged: Option<String>,
}

pub struct Sched {
    st: Mutex<State>,
    cv: Condvar,
}

impl Sched {
    pub fn new(workers: usize, prefix: Vec<usize>) -> Arc<Sched> {
        Arc::new(Sched {
            st: Mutex::new(State {
                workers,
                alive: vec![true; workers],
                prefix,
                ..Default::default()
            }),
            cv: Condvar::new(),
        })
    }

    /// decide who runs next; `running` = the worker that reached the point (None at start / exit)
    fn choose(st: &mut State, running: Option<usize>) -> Option<usize> {
        let mut cands: Vec<usize> = vec![];
        if let Some(w) = running {
            cands.push(w);
        }
        for w in 0..st.workers {
            if st.alive[w] && Some(w) != running {
                cands.push(w);
            }
        }
        if cands.is_empty() {
            return None;
        }
        let k = st.points.len();
        let choice = if k < st.prefix.len() { st.prefix[k] } else { 0 };
        if choice >= cands.len() {
            st.diverged = Some(format!(
                "choice {choice} at point {k} but only {} candidates",
                cands.len()
            ));
            // fall back to 0 so that the execution still terminates; the explorer reports it
            let w = cands[0];
            st.points.push(PointInfo {
                candidates: cands,
                preemptive: running.is_some(),
                chosen: 0,
            });
            return Some(w);
        }
        let w = cands[choice];
        st.points.push(PointInfo {
            candidates: cands,
            preemptive: running.is_some(),
            chosen: choice,
        });
        Some(w)
    }

    fn wait_for_baton<'a>(
        &self,
        mut st: std::sync::MutexGuard<'a, State>,
        w: usize,
    ) -> std::sync::MutexGuard<'a, State> {
        while st.current != Some(w) {
            st = self.cv.wait(st).unwrap();
        }
        st
    }

    pub fn result(&self) -> (Vec<PointInfo>, Vec<String>, Option<String>) {
        let st = self.st.lock().unwrap();
        (st.points.clone(), st.trace.clone(), st.diverged.clone())
    }
}

impl Runtime for Sched {
    fn workers(&self) -> usize {
        self.st.lock().unwrap().workers
    }
    fn enter(&self, worker: usize) {
        let mut st = self.st.lock().unwrap();
        st.entered += 1;
        if st.entered == st.workers {
            let next = Self::choose(&mut st, None);
            st.current = next;
            self.cv.notify_all();
        }
        let _st = self.wait_for_baton(st, worker);
    }
    fn exit(&self, worker: usize) {
        let mut st = self.st.lock().unwrap();
        st.alive[worker] = false;
        st.trace.push(format!("w{worker} exit"));
        let next = Self::choose(&mut st, None);
        st.current = next;
        self.cv.notify_all();
    }
    fn point(&self, kind: &'static str, path: &Path) {
        let mut st = self.st.lock().unwrap();
        let Some(w) = st.current else { return };
        let name = path.file_name().map(|n| n.to_string_lossy().to_string()).unwrap_or_default();
        st.trace.push(format!("w{w} {kind} {name}"));
        let next = Self::choose(&mut st, Some(w));
        st.current = next;
        if next != Some(w) {
            self.cv.notify_all();
            let _st = self.wait_for_baton(st, w);
        }
    }
}

// ---------------------------------------------------------------------------------------------
// one execution

#[derive(Debug, Clone, PartialEq)]
pub struct Outcome {
    /// final bytes of every distinct path (None = does not exist)
    pub files: Vec<(String, Option<Vec<u8>>)>,
    /// error messages handed to the error handler
    pub errors: Vec<String>,
}

/// file content alphabet: (name, bytes or None for "missing")
pub const FILE_KINDS: &[(&str, Option<&[u8]>)] = &[
    ("same-length-change", Some(b"a ;b;\n")),          // -> "a;\nb;\n"
    ("shrinks", Some(b"a    ;\n\n\n\n\nb   ;\n")),      // -> shorter
    ("grows", Some(b"a;b;c;")),                          // -> longer
    ("formatted", Some(b"a;\n")),
    ("undecodable", Some(b"a ;\xff\n")),
    ("missing", None),
    ("utf16-bom", Some(b"\xff\xfea\x00 \x00;\x00\n\x00")),
    ("large", None), // filled in by file_bytes
    // two programs of the same shape up to a token with child lines, with different child lines (state that a
    // worker keeps from one file to the next and keys by position would be served to the wrong file)
    ("undecodable-after-non-ascii", Some(b"x := '\xc3\xa9\xc3\xa9\xc3\xa9\xc3\xa9\xc3\xa9\xc3\xa9\xc3\xa9\xc3\xa9\xc3\xa9\xc3\xa9\xc3\xa9\xc3\xa9\xc3\xa9' ;//\xff\n")),
    ("anon-short", Some(b"procedure Run;\nbegin\n  Register(\n      procedure\n      begin\n        Call(Alpha, Beta, Gamma, Delta);\n      end);\nend;\n")),
    ("anon-long", Some(b"procedure Run;\nbegin\n  Register(\n      procedure\n      begin\n        Call(AlphaAlphaAlphaAlpha, BetaBetaBetaBetaBeta, GammaGammaGammaGamma, DeltaDeltaDeltaDelta);\n      end);\nend;\n")),
];

pub fn file_bytes(kind: usize) -> Option<Vec<u8>> {
    if FILE_KINDS[kind].0 == "large" {
        let mut v = Vec::new();
        for i in 0..150 {
            v.extend_from_slice(format!("x{i}   :=   {i} ;\n").as_bytes());
        }
        return Some(v);
    }
    FILE_KINDS[kind].1.map(|b| b.to_vec())
}

/// runs `pasfmt <mode> <paths>` in-process under the given schedule prefix
pub fn execute(dir: &Path, paths: &[PathBuf], contents: &[(PathBuf, Option<Vec<u8>>)], workers: usize, mode: &str, prefix: &[usize]) -> (Outcome, Vec<PointInfo>, Vec<String>, Option<String>) {
    execute_cfg(dir, paths, contents, workers, mode, prefix, &cfg::DEFAULT)
}

pub fn execute_cfg(dir: &Path, paths: &[PathBuf], contents: &[(PathBuf, Option<Vec<u8>>)], workers: usize, mode: &str, prefix: &[usize], fcfg: &cfg::Cfg) -> (Outcome, Vec<PointInfo>, Vec<String>, Option<String>) {
    for (p, c) in contents {
        let _ = std::fs::remove_file(p);
        if let Some(c) = c {
            std::fs::write(p, c).expect("write scratch file");
        }
    }
    let cfg_file = dir.join("pasfmt.toml");
    let want = if *fcfg == cfg::DEFAULT { String::new() } else { fcfg.toml() };
    if std::fs::read_to_string(&cfg_file).ok().as_deref() != Some(want.as_str()) {
        std::fs::write(&cfg_file, &want).unwrap();
    }
    let mut args: Vec<String> = vec!["pasfmt".into(), format!("--mode={mode}"), "--config-file".into(), cfg_file.display().to_string(), "--log-level".into(), "OFF".into()];
    for p in paths {
        args.push(p.display().to_string());
    }
    let config = Config::try_parse_from(&args).expect("cli parses").validate().expect("cli validates");
    let sched = Sched::new(workers, prefix.to_vec());
    set_runtime(Some(sched.clone()));
    // the batch runs on a thread of its own so that a worker that panics or blocks for good (the others then wait
    // for the baton for ever) is observed instead of hanging the explorer
    let errors: Arc<Mutex<Vec<String>>> = Arc::new(Mutex::new(vec![]));
    let e2 = errors.clone();
    let (tx, rx) = std::sync::mpsc::channel();
    std::thread::spawn(move || {
        let r = std::panic::catch_unwind(std::panic::AssertUnwindSafe(|| {
            pasfmt::format(config, move |e: anyhow::Error| {
                e2.lock().unwrap().push(format!("{e:#}"));
            })
        }));
        let _ = tx.send(r.is_ok());
    });
    let aborted = match rx.recv_timeout(std::time::Duration::from_secs(20)) {
        Ok(true) => None,
        Ok(false) => Some("the batch driver panicked".to_string()),
        Err(_) => Some("the batch did not finish within 20 s (a worker panicked or blocks for good)".to_string()),
    };
    set_runtime(None);
    let (points, trace, diverged) = sched.result();
    let mut files = vec![];
    for (p, _) in contents {
        files.push((p.file_name().unwrap().to_string_lossy().to_string(), std::fs::read(p).ok()));
    }
    let mut errs = errors.lock().unwrap().clone();
    errs.sort();
    if let Some(a) = aborted {
        errs.push(format!("ABORTED: {a}"));
    }
    (Outcome { files, errors: errs }, points, trace, diverged)
}

// ---------------------------------------------------------------------------------------------
// the explorer

pub struct C18Family {
    /// all file lists (indices into FILE_KINDS) to explore
    pub lists: Vec<Vec<usize>>,
    pub workers: Vec<usize>,
    pub modes: Vec<&'static str>,
    pub bound: usize,
    /// the same path listed twice (aliased) instead of distinct files
    pub aliased: bool,
    /// formatting configuration of the batch (through pasfmt.toml)
    pub cfg: cfg::Cfg,
}

fn solo_result(bytes: &Option<Vec<u8>>, mode: &str) -> (Option<Vec<u8>>, bool) {
    solo_result_cfg(bytes, mode, &cfg::DEFAULT)
}

fn solo_result_cfg(bytes: &Option<Vec<u8>>, mode: &str, fcfg: &cfg::Cfg) -> (Option<Vec<u8>>, bool) {
    // (expected final bytes, is the file expected to be reported as an error?)
    let Some(b) = bytes else { return (None, true) };
    let (text, bom): (Option<String>, &[u8]) = if b.starts_with(b"\xff\xfe") {
        let u: Vec<u16> = b[2..].chunks(2).map(|c| u16::from_le_bytes([c[0], *c.get(1).unwrap_or(&0)])).collect();
        (String::from_utf16(&u).ok(), &b[..2])
    } else {
        (String::from_utf8(b.clone()).ok(), &b[..0])
    };
    let Some(text) = text else { return (Some(b.clone()), true) };
    let out = fcfg.formatter().format(&text, pasfmt_core::prelude::FileOptions::new());
    if mode == "check" {
        return (Some(b.clone()), out != text);
    }
    let mut res = bom.to_vec();
    if bom.is_empty() {
        res.extend_from_slice(out.as_bytes());
    } else {
        for u in out.encode_utf16() {
            res.extend_from_slice(&u.to_le_bytes());
        }
    }
    (Some(res), false)
}

impl C18Family {
    fn decode(&self, idx: u64) -> (Vec<usize>, usize, &'static str) {
        let nl = self.lists.len() as u64;
        let nw = self.workers.len() as u64;
        let list = self.lists[(idx % nl) as usize].clone();
        let w = self.workers[((idx / nl) % nw) as usize];
        let m = self.modes[(idx / nl / nw) as usize];
        (list, w, m)
    }
}

impl Family for C18Family {
    fn name(&self) -> String {
        format!(
            "c18{}{}:filelists({})xworkers{:?}xmodes{:?},preemptions<={}",
            if self.aliased { "aliased" } else { "" },
            if self.cfg == cfg::DEFAULT { "" } else { "(wrap_column=60,format_multiline_strings=false)" },
            self.lists.len(),
            self.workers,
            self.modes,
            self.bound
        )
    }
    fn len(&self) -> u64 {
        (self.lists.len() * self.workers.len() * self.modes.len()) as u64
    }
    fn horizon_ms(&self) -> u64 {
        600_000
    }
    fn transitions_per_case(&self) -> u64 {
        1
    }
    fn describe(&self, idx: u64) -> Value {
        let (list, w, m) = self.decode(idx);
        json!({"files": list.iter().map(|k| FILE_KINDS[*k].0).collect::<Vec<_>>(), "workers": w, "mode": m, "aliased": self.aliased, "preemption_bound": self.bound})
    }
    fn run(&self, idx: u64, ctx: &mut Ctx) {
        let (list, workers, mode) = self.decode(idx);
        explore(&list, workers, mode, self.bound, self.aliased, &self.cfg, ctx);
    }
}

pub fn scratch_dir() -> PathBuf {
    let d = PathBuf::from(concat!(env!("CARGO_MANIFEST_DIR"), "/../work")).join(format!("c18-{}", std::process::id()));
    std::fs::create_dir_all(&d).expect("scratch dir");
    d
}


type Expected = Vec<(Option<Vec<u8>>, bool)>;

/// the oracle for one execution: None = fine, Some((signature, detail)) = violation
fn judge(contents: &[(PathBuf, Option<Vec<u8>>)], paths: &[PathBuf], expected: &Expected, outcome: &Outcome, aliased: bool, mode: &str) -> Option<(String, String)> {
    let lossy = |b: &Option<Vec<u8>>| b.as_ref().map(|b| String::from_utf8_lossy(b).to_string());
    if let Some(a) = outcome.errors.iter().find(|e| e.starts_with("ABORTED: ")) {
        return Some(("batch-aborted".to_string(), a.clone()));
    }
    let mut failing: Vec<String> = vec![];
    for (i, (p, _)) in contents.iter().enumerate() {
        let name = p.file_name().unwrap().to_string_lossy().to_string();
        let (exp_bytes, exp_err) = &expected[i];
        let got = &outcome.files[i].1;
        if got != exp_bytes {
            let sig = if aliased { "schedule:same-path-two-workers:file-differs-from-solo-result" } else { "file-differs-from-solo-result" };
            return Some((sig.to_string(), format!("{name}: expected {:?}, got {:?}", lossy(exp_bytes), lossy(got))));
        }
        if *exp_err {
            failing.push(name);
        }
    }
    // every failing path reported exactly once per mention, nothing else reported
    let mut reported: Vec<String> = vec![];
    for e in &outcome.errors {
        let hit = contents.iter().map(|(p, _)| p.file_name().unwrap().to_string_lossy().to_string()).find(|n| e.contains(n.as_str()));
        match hit {
            Some(n) => reported.push(n),
            None => reported.push(format!("?{e}")),
        }
    }
    let mut expected_reports: Vec<String> = vec![];
    for p in paths {
        let n = p.file_name().unwrap().to_string_lossy().to_string();
        if failing.contains(&n) {
            expected_reports.push(n);
        }
    }
    reported.sort();
    expected_reports.sort();
    if reported != expected_reports {
        let sig = if aliased { "schedule:same-path-two-workers:error-reports-differ" } else { "error-reports-differ" };
        return Some((sig.to_string(), format!("reported {reported:?}, expected {expected_reports:?}; errors {:?}", outcome.errors)));
    }
    None
}

fn setup(dir: &Path, list: &[usize], aliased: bool) -> (Vec<(PathBuf, Option<Vec<u8>>)>, Vec<PathBuf>) {
    let mut contents: Vec<(PathBuf, Option<Vec<u8>>)> = vec![];
    let mut paths: Vec<PathBuf> = vec![];
    for (i, k) in list.iter().enumerate() {
        // names that differ only in letter case: distinct files on a case-sensitive file system,
        // forced to collide in anything that folds case
        let p = dir.join(["unit.pas", "Unit.pas", "UNIT.pas", "uNIT.PAS"][i % 4]);
        contents.push((p.clone(), file_bytes(*k)));
        paths.push(p.clone());
        if aliased && i == 0 {
            // the first file of the list is named twice
            paths.push(p);
        }
    }
    (contents, paths)
}

/// explores every schedule with at most `bound` preemptions for one batch
pub fn explore(list: &[usize], workers: usize, mode: &'static str, bound: usize, aliased: bool, fcfg: &cfg::Cfg, ctx: &mut Ctx) {
    let dir = scratch_dir();
    let (contents, paths) = setup(&dir, list, aliased);
    let expected: Vec<(Option<Vec<u8>>, bool)> = contents.iter().map(|(_, c)| solo_result_cfg(c, mode, fcfg)).collect();
    let case = |prefix: &[usize], trace: &[String]| {
        json!({"oracle": "c18", "files": list.iter().map(|k| FILE_KINDS[*k].0).collect::<Vec<_>>(), "file_kinds": list, "workers": workers, "mode": mode, "cfg": fcfg,
               "aliased": aliased, "schedule": prefix, "trace": trace, "no_confirm": false})
    };
    let mut stack: Vec<Vec<usize>> = vec![vec![]];
    let mut executions = 0u64;
    let mut first = true;
    let mut outcomes: std::collections::HashSet<String> = Default::default();
    while let Some(prefix) = stack.pop() {
        let (outcome, points, trace, diverged) = execute_cfg(&dir, &paths, &contents, workers, mode, &prefix, fcfg);
        executions += 1;
        if !first {
            ctx.sub_eval();
        }
        first = false;
        ctx.nontrivial();
        ctx.count_n("c18.scheduling-points", points.len() as u64);
        if let Some(d) = diverged {
            ctx.fail("C18", "machinery:replay-diverged", d, case(&prefix, &trace));
            return;
        }
        outcomes.insert(format!("{:?}", outcome));
        if let Some((sig, detail)) = judge(&contents, &paths, &expected, &outcome, aliased, mode) {
            let sched: Vec<usize> = points.iter().map(|p| p.chosen).collect();
            ctx.fail("C18", &sig, format!("{detail}; schedule {sched:?}; trace {trace:?}"), case(&sched, &trace));
            return;
        }
        // children: deviate at every later point, within the preemption bound
        let cost_before = |i: usize| -> usize { points[..i].iter().filter(|p| p.preemptive && p.chosen != 0).count() };
        for i in prefix.len()..points.len() {
            let p = &points[i];
            let c0 = cost_before(i);
            for alt in 1..p.candidates.len() {
                let cost = c0 + if p.preemptive { 1 } else { 0 };
                if cost > bound {
                    continue;
                }
                let mut child: Vec<usize> = points[..i].iter().map(|q| q.chosen).collect();
                child.push(alt);
                stack.push(child);
            }
        }
    }
    ctx.count_n("c18.executions", executions);
    ctx.count_n("c18.distinct-outcomes", outcomes.len() as u64);
    if outcomes.len() > 1 {
        ctx.count("c18.batches-with-more-than-one-outcome");
    }
    let _ = std::fs::remove_dir_all(&dir);
}

/// replay one recorded schedule (twice: the observations must be identical)
pub fn replay(case: &Value, ctx: &mut Ctx) {
    let list: Vec<usize> = case["file_kinds"].as_array().map(|a| a.iter().filter_map(|v| v.as_u64()).map(|v| v as usize).collect()).unwrap_or_default();
    let workers = case["workers"].as_u64().unwrap_or(2) as usize;
    let mode: &'static str = if case["mode"].as_str() == Some("check") { "check" } else { "files" };
    let aliased = case["aliased"].as_bool().unwrap_or(false);
    let schedule: Vec<usize> = case["schedule"].as_array().map(|a| a.iter().filter_map(|v| v.as_u64()).map(|v| v as usize).collect()).unwrap_or_default();
    let dir = scratch_dir();
    let (contents, paths) = setup(&dir, &list, aliased);
    let fcfg: cfg::Cfg = serde_json::from_value(case["cfg"].clone()).unwrap_or(cfg::DEFAULT);
    let expected: Expected = contents.iter().map(|(_, c)| solo_result_cfg(c, mode, &fcfg)).collect();
    let (o1, _, t1, d1) = execute_cfg(&dir, &paths, &contents, workers, mode, &schedule, &fcfg);
    let (o2, _, t2, _) = execute_cfg(&dir, &paths, &contents, workers, mode, &schedule, &fcfg);
    if o1 != o2 || t1 != t2 {
        ctx.fail("C18", "machinery:replay-not-deterministic", format!("{t1:?} vs {t2:?}"), case.clone());
    } else if let Some(d) = d1 {
        ctx.fail("C18", "machinery:replay-diverged", d, case.clone());
    } else if let Some((sig, detail)) = judge(&contents, &paths, &expected, &o1, aliased, mode) {
        ctx.fail("C18", &sig, format!("{detail}; trace {t1:?}"), case.clone());
    }
    let _ = std::fs::remove_dir_all(&dir);
}
