//! Oracles. Each is a function of explicit arguments (text, configuration, ...) so that a
//! violation can be replayed from its JSON description without the explorer.
use crate::cfg::Cfg;
use crate::refscan::{self as r, Kind, Tok};
use crate::runner::Ctx;
use pasfmt_core::lang::{RawToken, RawTokenType, TokenData};
use pasfmt_core::prelude::{DelphiLexer, Lexer};
use serde_json::{json, Value};

// ---------------------------------------------------------------------------------------------
// shared helpers

pub fn strip_blanks(s: &str) -> impl Iterator<Item = char> + '_ {
    s.chars().filter(|c| !r::is_blank(*c))
}

/// `pasfmt on|off` toggle recognised in a comment token text (independent re-statement of the
/// documented rule: comment opener, optional blanks, `pasfmt`, at least one blank, then the
/// exact word on/off, all case-insensitive).
pub fn toggle_of(comment: &str) -> Option<bool> {
    let body = comment
        .strip_prefix("//")
        .or_else(|| comment.strip_prefix("(*"))
        .or_else(|| comment.strip_prefix('{'))?;
    let is_ws = |c: char| matches!(c, ' ' | '\t' | '\n' | '\r' | '\x0c');
    let body = body.trim_start_matches(is_ws);
    if body.len() < 6 || !body.is_char_boundary(6) || !body[..6].eq_ignore_ascii_case("pasfmt") {
        return None;
    }
    let rest = &body[6..];
    let rest2 = rest.trim_start_matches(is_ws);
    if rest2.len() == rest.len() {
        return None;
    }
    let word: String = rest2
        .chars()
        .take_while(|c| c.is_ascii_alphanumeric())
        .collect();
    if word.eq_ignore_ascii_case("on") {
        Some(true)
    } else if word.eq_ignore_ascii_case("off") {
        Some(false)
    } else {
        None
    }
}

/// For each token of `toks` (R's scan of `text`): is it part of a verbatim unit (a token the
/// formatter must reproduce together with its own leading whitespace)?
///   * every token from a `pasfmt off` comment up to and including the next `pasfmt on` comment
///     (or the end-of-file token); a stray `pasfmt on` comment is itself verbatim;
///   * every token lexed in asm mode (between `asm` and the closing `end`).
///
/// When conditional directives and `asm` both occur, everything after the first `asm` is
/// treated as possibly verbatim (a directive branch can hide the closing `end` from the scanner).
pub fn verbatim_mask(text: &str, toks: &[Tok]) -> Vec<bool> {
    verbatim_mask_opt(text, toks, true)
}

/// only the tokens that are certainly kept verbatim (without the "asm plus conditional directives"
/// over-approximation): for oracles that demand an exact text of verbatim tokens
pub fn verbatim_mask_definite(text: &str, toks: &[Tok]) -> Vec<bool> {
    verbatim_mask_opt(text, toks, false)
}

fn verbatim_mask_opt(text: &str, toks: &[Tok], superset: bool) -> Vec<bool> {
    let mut mask = vec![false; toks.len()];
    let mut off = false;
    let has_cond = superset && toks.iter().any(|t| matches!(t.kind, Kind::Conditional(_)));
    let mut asm_seen = false;
    for (i, t) in toks.iter().enumerate() {
        let mut on_toggle = false;
        if let Kind::Comment(_) = t.kind {
            match toggle_of(t.text(text)) {
                Some(false) => {
                    off = true;
                    on_toggle = true;
                }
                Some(true) => {
                    off = false;
                    on_toggle = true;
                }
                None => {}
            }
        }
        if off || on_toggle || ((t.asm || (has_cond && asm_seen)) && t.kind != Kind::Eof) {
            mask[i] = true;
        }
        if t.kind == Kind::Keyword(3) {
            asm_seen = true;
        }
    }
    mask
}

fn esc(s: &str) -> String {
    s.to_string()
}

pub fn case_fmt(oracle: &str, input: &str, cfg: &Cfg) -> Value {
    json!({"oracle": oracle, "input": esc(input), "cfg": cfg})
}

// ---------------------------------------------------------------------------------------------
// C13 — lexing is lossless and agrees with R

pub fn map_raw(tt: RawTokenType) -> Kind {
    use pasfmt_core::lang::{
        CommentKind as CK, ConditionalDirectiveKind as CDK, NumberLiteralKind as NK,
        OperatorKind as OK, TextLiteralKind as TK,
    };
    fn kw(k: pasfmt_core::lang::KeywordKind) -> String {
        let d = format!("{k:?}");
        d.split('(').next().unwrap().to_ascii_lowercase()
    }
    match tt {
        RawTokenType::Identifier => Kind::Identifier,
        RawTokenType::Keyword(k) => {
            let n = kw(k);
            match r::PURE.iter().position(|w| *w == n) {
                Some(i) => Kind::Keyword(i),
                None => Kind::Unknown, // a pure keyword R does not know: reported as mismatch
            }
        }
        RawTokenType::IdentifierOrKeyword(k) => {
            let n = kw(k);
            match r::CONTEXTUAL.iter().position(|w| *w == n) {
                Some(i) => Kind::Contextual(i),
                None => Kind::Unknown,
            }
        }
        RawTokenType::TextLiteral(k) => Kind::Text(match k {
            TK::SingleLine => r::TextKind::SingleLine,
            TK::MultiLine => r::TextKind::MultiLine,
            TK::Asm => r::TextKind::Asm,
            TK::Unterminated => r::TextKind::Unterminated,
        }),
        RawTokenType::NumberLiteral(k) => Kind::Number(match k {
            NK::Decimal => r::NumKind::Decimal,
            NK::Octal => r::NumKind::Octal,
            NK::Hex => r::NumKind::Hex,
            NK::Binary => r::NumKind::Binary,
        }),
        RawTokenType::ConditionalDirective(k) => Kind::Conditional(match k {
            CDK::If => r::CondKind::If,
            CDK::Ifdef => r::CondKind::Ifdef,
            CDK::Ifndef => r::CondKind::Ifndef,
            CDK::Ifopt => r::CondKind::Ifopt,
            CDK::Elseif => r::CondKind::Elseif,
            CDK::Else => r::CondKind::Else,
            CDK::Ifend => r::CondKind::Ifend,
            CDK::Endif => r::CondKind::Endif,
        }),
        RawTokenType::CompilerDirective => Kind::CompilerDirective,
        RawTokenType::Comment(k) => Kind::Comment(match k {
            CK::InlineBlock => r::CommentKind::InlineBlock,
            CK::IndividualBlock => r::CommentKind::IndividualBlock,
            CK::MultilineBlock => r::CommentKind::MultilineBlock,
            CK::InlineLine => r::CommentKind::InlineLine,
            CK::IndividualLine => r::CommentKind::IndividualLine,
        }),
        RawTokenType::Eof => Kind::Eof,
        RawTokenType::Unknown => Kind::Unknown,
        RawTokenType::Op(o) => Kind::Op(match o {
            OK::Plus => r::Op::Plus,
            OK::Minus => r::Op::Minus,
            OK::Star => r::Op::Star,
            OK::Slash => r::Op::Slash,
            OK::Assign => r::Op::Assign,
            OK::Comma => r::Op::Comma,
            OK::Semicolon => r::Op::Semicolon,
            OK::Colon => r::Op::Colon,
            OK::Equal(_) => r::Op::Equal,
            OK::NotEqual => r::Op::NotEqual,
            OK::LessThan(_) => r::Op::LessThan,
            OK::LessEqual => r::Op::LessEqual,
            OK::GreaterThan(_) => r::Op::GreaterThan,
            OK::GreaterEqual => r::Op::GreaterEqual,
            OK::LBrack => r::Op::LBrack,
            OK::RBrack => r::Op::RBrack,
            OK::LParen => r::Op::LParen,
            OK::RParen => r::Op::RParen,
            OK::Caret(_) => r::Op::Caret,
            OK::AddressOf => r::Op::AddressOf,
            OK::Dot => r::Op::Dot,
            OK::DotDot => r::Op::DotDot,
        }),
    }
}

/// (ws_start, start, end, kind) of every lexer token
pub fn lexer_toks(input: &str) -> Vec<Tok> {
    let toks: Vec<RawToken> = DelphiLexer {}.lex(input);
    let mut out = Vec::with_capacity(toks.len());
    let mut pos = 0usize;
    for t in &toks {
        let ws = t.get_leading_whitespace().len();
        let c = t.get_content().len();
        out.push(Tok {
            ws: pos,
            start: pos + ws,
            end: pos + ws + c,
            kind: map_raw(t.get_token_type()),
            asm: false,
        });
        pos += ws + c;
    }
    out
}

/// structural clauses of C13 on the lexer's own output, plus agreement with R
pub fn c13(input: &str, ctx: &mut Ctx) {
    let toks: Vec<RawToken> = DelphiLexer {}.lex(input);
    let case = || json!({"oracle": "c13", "input": input});
    // losslessness
    let mut pos = 0usize;
    let mut eofs = 0;
    for (i, t) in toks.iter().enumerate() {
        let ws = t.get_leading_whitespace();
        let c = t.get_content();
        if !input[pos..].starts_with(ws) || !input[pos + ws.len()..].starts_with(c) {
            ctx.fail("C13", "lossless:concat", format!("token {i} does not continue the input at {pos}"), case());
            return;
        }
        if !ws.chars().all(r::is_blank) {
            ctx.fail("C13", "lossless:leading-not-blank", format!("token {i} leading {ws:?}"), case());
            return;
        }
        pos += ws.len() + c.len();
        let is_eof = t.get_token_type() == RawTokenType::Eof;
        if is_eof {
            eofs += 1;
            if i != toks.len() - 1 || !c.is_empty() {
                ctx.fail("C13", "lossless:eof-position", format!("eof token at {i} of {}", toks.len()), case());
                return;
            }
        } else {
            match c.chars().next() {
                None => {
                    ctx.fail("C13", "lossless:empty-token", format!("token {i} is empty"), case());
                    return;
                }
                Some(ch) if r::is_blank(ch) => {
                    ctx.fail("C13", "lossless:starts-blank", format!("token {i} {c:?}"), case());
                    return;
                }
                _ => {}
            }
        }
    }
    if pos != input.len() || eofs != 1 {
        ctx.fail("C13", "lossless:coverage", format!("covered {pos} of {} bytes, {eofs} eof tokens", input.len()), case());
        return;
    }
    // agreement with R
    let a = lexer_toks(input);
    let b = r::scan(input);
    if a.len() > 1 {
        ctx.nontrivial();
    }
    let n = a.len().min(b.len());
    for i in 0..n {
        if (a[i].ws, a[i].start, a[i].end) != (b[i].ws, b[i].start, b[i].end) {
            ctx.fail(
                "C13",
                "boundary",
                format!("token {i}: lexer {:?}..{:?} {:?}, reference {:?}..{:?} {:?}", a[i].start, a[i].end, a[i].kind, b[i].start, b[i].end, b[i].kind),
                case(),
            );
            return;
        }
        if a[i].kind != b[i].kind {
            ctx.fail(
                "C13",
                "kind",
                format!("token {i} {:?}: lexer {:?}, reference {:?}", a[i].text(input), a[i].kind, b[i].kind),
                case(),
            );
            return;
        }
    }
    if a.len() != b.len() {
        ctx.fail("C13", "boundary", format!("{} vs {} tokens", a.len(), b.len()), case());
    }
}

/// Both identifier-scanning routines (scalar and AVX2, via the hook) must agree with R's identifier
/// run from every char boundary of x.
pub fn c13_ident_routines(x: &str, ctx: &mut Ctx) {
    fn ref_end(x: &str, mut i: usize) -> usize {
        for ch in x[i..].chars() {
            let ident = ch.is_ascii_alphanumeric() || ch == '_' || (ch >= '\u{80}' && ch != '\u{3000}');
            if !ident {
                break;
            }
            i += ch.len_utf8();
        }
        i
    }
    for i in 0..=x.len() {
        if !x.is_char_boundary(i) {
            continue;
        }
        let expect = ref_end(x, i);
        let g = pasfmt_core::verif::lexer::ident_end_generic(x, i);
        let d = pasfmt_core::verif::lexer::ident_end_dispatch(x, i);
        let a = pasfmt_core::verif::lexer::ident_end_avx2(x, i);
        for (name, got) in [("generic", Some(g)), ("dispatch", Some(d)), ("avx2", a)] {
            if let Some(got) = got {
                if got != expect {
                    ctx.fail(
                        "C13",
                        &format!("identifier-end:{name}"),
                        format!("identifier run from byte {i}: {name} routine says {got}, reference {expect}"),
                        json!({"oracle": "c13words", "input": x}),
                    );
                    return;
                }
            }
        }
    }
}

// ---------------------------------------------------------------------------------------------
// C01 — every non-blank character preserved, in order

/// per non-blank char of `x`: may its ASCII case differ in the output?
fn case_allowed(x: &str, toks: &[Tok]) -> Vec<bool> {
    let mut allowed = Vec::new();
    for t in toks {
        let text = t.text(x);
        let (lo, hi) = match t.kind {
            Kind::Identifier | Kind::Keyword(_) | Kind::Contextual(_)
                if r::keyword_capable(text) =>
            {
                (0, text.len())
            }
            Kind::CompilerDirective | Kind::Conditional(_) => r::directive_name_span(text),
            _ => (0, 0),
        };
        for (off, ch) in text.char_indices() {
            if !r::is_blank(ch) {
                allowed.push(off >= lo && off < hi);
            }
        }
    }
    allowed
}

pub fn c01(x: &str, out: &str, cfg: &Cfg, ctx: &mut Ctx) {
    let toks = r::scan(x);
    let allowed = case_allowed(x, &toks);
    let mut a = strip_blanks(x);
    let mut b = strip_blanks(out);
    let mut i = 0usize;
    let mut folded = false;
    loop {
        match (a.next(), b.next()) {
            (None, None) => break,
            (Some(p), Some(q)) if p == q => {}
            (Some(p), Some(q)) if p.eq_ignore_ascii_case(&q) => {
                if !allowed.get(i).copied().unwrap_or(false) {
                    ctx.fail(
                        "C01",
                        "case-changed-outside-keyword-or-directive-name",
                        format!("non-blank char #{i}: {p:?} became {q:?}; output {out:?}"),
                        case_fmt("c01", x, cfg),
                    );
                    return;
                }
                folded = true;
            }
            (p, q) => {
                ctx.fail(
                    "C01",
                    "nonblank-sequence-differs",
                    format!("non-blank char #{i}: input {p:?}, output {q:?}; output {out:?}"),
                    case_fmt("c01", x, cfg),
                );
                return;
            }
        }
        i += 1;
    }
    if folded {
        ctx.count("c01.case_folded");
    }
    if x != out {
        ctx.nontrivial();
        ctx.count("changed");
    }
}

// ---------------------------------------------------------------------------------------------
// C08 — canonical output whitespace

/// splits `lead` into terminators and the blanks around them.
/// Returns Err(description) when it is not canonical for a non-verbatim token.
fn check_lead(lead: &str, cfg: &Cfg, first_token: bool, is_eof: bool) -> Result<(), (&'static str, String)> {
    // tokenise the lead into NL ("\r\n" or "\n") and other chars
    let mut parts: Vec<&str> = Vec::new(); // segments between terminators
    let mut nls = 0;
    let mut seg_start = 0;
    let b = lead.as_bytes();
    let mut i = 0;
    while i < b.len() {
        if b[i] == b'\n' {
            parts.push(&lead[seg_start..i]);
            nls += 1;
            i += 1;
            seg_start = i;
        } else if b[i] == b'\r' && b.get(i + 1) == Some(&b'\n') {
            parts.push(&lead[seg_start..i]);
            nls += 1;
            i += 2;
            seg_start = i;
        } else {
            i += 1;
        }
    }
    let last = &lead[seg_start..];
    if nls == 0 {
        if first_token {
            // the indentation of the first line (a single blank is not a token separator here)
            return if last.is_empty() { Ok(()) } else { check_indent(last, cfg) };
        }
        if !(last.is_empty() || last == " ") {
            return Err(("same-line-gap", format!("gap {lead:?} between tokens on one line")));
        }
        return Ok(());
    }
    if first_token {
        return Err(("leading-blank-line", format!("output starts with {lead:?}")));
    }
    // no line ends in blanks: everything before each terminator must be empty
    for p in &parts {
        if !p.is_empty() {
            return Err(("trailing-blanks", format!("blanks before a line terminator in {lead:?}")));
        }
    }
    if nls > 2 {
        return Err(("blank-lines", format!("{nls} consecutive terminators in {lead:?}")));
    }
    if is_eof {
        if !last.is_empty() {
            return Err(("trailing-blanks", format!("blanks before end of file in {lead:?}")));
        }
        return Ok(());
    }
    check_indent(last, cfg)
}

fn check_indent(ind: &str, cfg: &Cfg) -> Result<(), (&'static str, String)> {
    if cfg.tabs {
        if !ind.bytes().all(|c| c == b'\t') {
            return Err(("indent-unit", format!("indentation {ind:?} is not tabs only")));
        }
    } else {
        if !ind.bytes().all(|c| c == b' ') {
            return Err(("indent-unit", format!("indentation {ind:?} is not spaces only")));
        }
        if (cfg.ci as usize) * (cfg.tw as usize) <= 255 {
            let tw = cfg.tw as usize;
            if (tw == 0 && !ind.is_empty()) || (tw > 0 && ind.len() % tw != 0) {
                return Err(("indent-unit", format!("indentation of {} is not a multiple of tab_width {}", ind.len(), tw)));
            }
        }
    }
    Ok(())
}

pub struct C08Opts {
    /// check the end-of-file clause (well-formed input only)
    pub eof_clause: bool,
}

/// a line comment that is ended by a lone CR: the lexer ends the comment there, but the rest of the
/// pipeline only knows LF as a line break, so the break after the comment is the reconstructor's
/// last-resort one (known finding)
pub fn lone_cr_after_line_comment(x: &str) -> bool {
    let toks = r::scan(x);
    (0..toks.len().saturating_sub(1)).any(|i| {
        matches!(toks[i].kind, Kind::Comment(r::CommentKind::InlineLine | r::CommentKind::IndividualLine))
            && toks[i + 1].lead(x).starts_with('\r')
            && !toks[i + 1].lead(x).contains('\n')
    })
}

pub fn c08(x: &str, out: &str, cfg: &Cfg, opts: &C08Opts, ctx: &mut Ctx) {
    let before = ctx.stats.violation_count;
    c08_inner(x, out, cfg, opts, ctx);
    if ctx.stats.violation_count > before && lone_cr_after_line_comment(x) {
        if let Some(v) = ctx.stats.violations.last_mut() {
            if v.property == "C08" && !v.signature.contains("lone-cr") {
                let old = format!("C08|{}", v.signature);
                // (the mechanism explains the failure whatever else was observed on the way)
                let base = v.signature.split(':').next().unwrap_or("").to_string();
                v.signature = format!("{base}:line-comment-ended-by-lone-cr");
                let new = format!("C08|{}", v.signature);
                if let Some(n) = ctx.stats.by_signature.get_mut(&old) {
                    *n -= 1;
                }
                *ctx.stats.by_signature.entry(new).or_default() += 1;
            }
        }
    }
}

fn c08_inner(x: &str, out: &str, cfg: &Cfg, opts: &C08Opts, ctx: &mut Ctx) {
    let toks = r::scan(out);
    let mask = verbatim_mask(out, &toks);
    let input_has_token = r::scan(x).len() > 1;
    let case = || json!({"oracle": "c08", "input": x, "cfg": cfg, "eof_clause": opts.eof_clause});
    for (i, t) in toks.iter().enumerate() {
        if mask[i] {
            continue;
        }
        let lead = t.lead(out);
        let is_eof = t.kind == Kind::Eof;
        let first = i == 0;
        if first && !input_has_token {
            continue;
        }
        if let Err((sig, d)) = check_lead(lead, cfg, first, is_eof) {
            ctx.fail("C08", sig, format!("{d} before token {i} {:?}; output {out:?}", t.text(out)), case());
            return;
        }
        // a line comment must not end in space/tab
        if let Kind::Comment(r::CommentKind::InlineLine | r::CommentKind::IndividualLine) = t.kind {
            let text = t.text(out);
            if text.ends_with(' ') || text.ends_with('\t') {
                ctx.fail("C08", "trailing-blanks", format!("line comment {text:?} ends in blanks; output {out:?}"), case());
                return;
            }
        }
    }
    if opts.eof_clause {
        let eof = toks.last().unwrap();
        let k = toks.len() - 1;
        if !mask[k] {
            let lead = eof.lead(out);
            if !(lead == "\n" || lead == "\r\n") {
                ctx.fail("C08", "eof-terminator", format!("output ends with {lead:?}; output {out:?}"), case());
                return;
            }
        }
    }
    if x != out {
        ctx.nontrivial();
    }
}

// ---------------------------------------------------------------------------------------------
// C14 — logical lines are well formed and cover every token

pub struct C14Opts {
    pub well_formed: bool,
}

pub fn c14(x: &str, opts: &C14Opts, ctx: &mut Ctx) {
    use pasfmt_core::lang::{LogicalLineType, TokenType};
    use pasfmt_core::prelude::{DelphiLogicalLineParser, LogicalLineParser};
    let raw = DelphiLexer {}.lex(x);
    let n = raw.len();
    let has_cond = raw
        .iter()
        .any(|t| matches!(t.get_token_type(), RawTokenType::ConditionalDirective(_)));
    let passes = pasfmt_core::verif::passes(&raw);
    let (lines, tokens) = DelphiLogicalLineParser {}.parse(raw);
    let case = || json!({"oracle": "c14", "input": x, "well_formed": opts.well_formed});
    if tokens.len() != n {
        ctx.fail("C14", "token-count", format!("{} tokens lexed, {} after parsing", n, tokens.len()), case());
        return;
    }
    let mut membership = vec![0u32; n];
    for (li, line) in lines.iter().enumerate() {
        let t = line.get_tokens();
        if t.is_empty() {
            ctx.fail("C14", "empty-line", format!("logical line {li} is empty"), case());
            return;
        }
        for w in t.windows(2) {
            if w[0] >= w[1] {
                ctx.fail("C14", "not-increasing", format!("line {li} tokens {t:?}"), case());
                return;
            }
        }
        for &ti in t {
            if ti >= n {
                ctx.fail("C14", "index-out-of-range", format!("line {li} token {ti} of {n}"), case());
                return;
            }
            membership[ti] += 1;
        }
    }
    for (ti, &m) in membership.iter().enumerate() {
        if m == 0 {
            ctx.fail("C14", "token-in-no-line", format!("token {ti} {:?} is in no logical line", tokens[ti].get_content()), case());
            return;
        }
        if m != 1 && !has_cond {
            ctx.fail("C14", "token-in-many-lines", format!("token {ti} {:?} is in {m} lines (no conditional directives)", tokens[ti].get_content()), case());
            return;
        }
    }
    // every non-conditional token is in at least one pass; passes strictly increasing
    let mut in_pass = vec![false; n];
    for p in &passes {
        for w in p.windows(2) {
            if w[0] >= w[1] {
                ctx.fail("C14", "pass-not-increasing", format!("pass {p:?}"), case());
                return;
            }
        }
        for &ti in p {
            if ti < n {
                in_pass[ti] = true;
            }
        }
    }
    for ti in 0..n {
        let cond = matches!(tokens[ti].get_token_type(), TokenType::ConditionalDirective(_));
        if !cond && !in_pass[ti] {
            ctx.fail("C14", "token-in-no-pass", format!("token {ti} {:?}", tokens[ti].get_content()), case());
            return;
        }
    }
    ctx.count_n("c14.passes", passes.len() as u64);
    if opts.well_formed {
        let mut eof_lines = 0;
        for (li, line) in lines.iter().enumerate() {
            if let Some(p) = line.get_parent() {
                if p.line_index >= li {
                    ctx.fail("C14", "parent-not-before-child", format!("line {li} has parent line {}", p.line_index), case());
                    return;
                }
                if !lines[p.line_index].get_tokens().contains(&p.global_token_index) {
                    ctx.fail("C14", "parent-token-not-in-parent-line", format!("line {li}: parent line {} lacks token {}", p.line_index, p.global_token_index), case());
                    return;
                }
            }
            if line.get_line_type() == LogicalLineType::Eof {
                eof_lines += 1;
                if line.get_tokens() != &vec![n - 1] {
                    ctx.fail("C14", "eof-line-content", format!("eof line holds {:?}", line.get_tokens()), case());
                    return;
                }
            } else if line.get_tokens().contains(&(n - 1)) {
                ctx.fail("C14", "eof-token-in-other-line", format!("line {li} holds the end-of-file token"), case());
                return;
            }
        }
        if eof_lines != 1 {
            ctx.fail("C14", "eof-line-count", format!("{eof_lines} end-of-file lines"), case());
            return;
        }
    }
    if lines.len() > 1 {
        ctx.nontrivial();
    }
}

// ---------------------------------------------------------------------------------------------
// C04 — work bounds

/// the number of conditional-directive passes is linear in the number of directive tokens
pub fn c04_passes(x: &str, cfg: &Cfg, ctx: &mut Ctx) {
    let ndir = r::scan(x).iter().filter(|t| matches!(t.kind, Kind::Conditional(_))).count() as u64;
    pasfmt_core::verif::reset();
    let out = ctx.fmt(cfg, x);
    let c = pasfmt_core::verif::snapshot();
    if c.parser_passes > ndir + 1 {
        ctx.fail(
            "C04",
            "passes-not-linear-in-directives",
            format!("{} passes for {} conditional directives", c.parser_passes, ndir),
            case_fmt("c04passes", x, cfg),
        );
    }
    if out != x {
        ctx.nontrivial();
    }
}

/// deterministic work counters stay below c*n^3 (c fixed from the small sizes)
pub fn c04_scaling(kind: usize, cfg: &Cfg, sizes: &[usize], ctx: &mut Ctx) {
    let mut base: Option<(f64, f64)> = None; // work per n^3 at the calibration sizes (parser, wrapper)
    // cost of the fixed prefix of the "nest after a long file" constructs
    let (prefix_p, prefix_w) = if kind >= crate::alphabet::SCALING_PREFIXED {
        let x = crate::alphabet::scaling_input(kind, 0);
        pasfmt_core::verif::reset();
        let _ = ctx.fmt(cfg, &x);
        let c = pasfmt_core::verif::snapshot();
        ((c.parser_lookups + c.parser_tokens) as f64, c.wrapper_nodes as f64)
    } else {
        (0.0, 0.0)
    };
    for (k, &n) in sizes.iter().enumerate() {
        if k > 0 {
            ctx.sub_eval();
        }
        let x = crate::alphabet::scaling_input(kind, n);
        pasfmt_core::verif::reset();
        let out = ctx.fmt(cfg, &x);
        let c = pasfmt_core::verif::snapshot();
        let parser = ((c.parser_lookups + c.parser_tokens) as f64 - prefix_p).max(0.0);
        let wrapper = (c.wrapper_nodes as f64 - prefix_w).max(0.0);
        let cube = (n as f64).powi(3).max(1.0);
        ctx.nontrivial();
        let _ = out;
        if n <= 8 {
            let b = base.get_or_insert((0.0, 0.0));
            b.0 = b.0.max(parser / cube).max(parser / 8.0f64.powi(3));
            b.1 = b.1.max(wrapper / cube).max(wrapper / 8.0f64.powi(3));
        } else if let Some((bp, bw)) = base {
            // generous constant: 64 x the largest per-n^3 cost seen at n <= 8, plus a linear floor
            let limit_p = 64.0 * bp * cube + 100_000.0 * n as f64;
            let limit_w = 64.0 * bw * cube + 100_000.0 * n as f64;
            if parser > limit_p || wrapper > limit_w {
                ctx.fail(
                    "C04",
                    "work-not-polynomial",
                    format!("construct {kind} at n={n}: parser work {parser}, wrapper nodes {wrapper}; cubic limits {limit_p:.0} / {limit_w:.0}"),
                    json!({"oracle": "c04scaling", "kind": kind, "n": n, "cfg": cfg}),
                );
                return;
            }
        }
    }
}
