mod alphabet;
mod cfg;
mod checks;
mod grammar;
mod layout;
mod oracles2;
mod oracles3;
mod progs;
mod oracles;
mod refscan;
mod runner;
mod sched;

use runner::{run_family, RunOpts, WorkerArgs};
use serde_json::{json, Value};
use std::time::Instant;

fn usage() -> ! {
    eprintln!("usage: pasfmt-mc run <check> <tier> <out.json> | worker ... | replay <case.json> | lex <file>");
    std::process::exit(2);
}

fn main() {
    let args: Vec<String> = std::env::args().collect();
    if args.len() < 2 {
        usage();
    }
    match args[1].as_str() {
        "run" => {
            if args.len() < 5 {
                usage();
            }
            let (check, tier, out) = (&args[2], &args[3], &args[4]);
            let t0 = Instant::now();
            let fams = checks::families(check, tier);
            if fams.is_empty() {
                eprintln!("unknown check {check}");
                std::process::exit(2);
            }
            let exe = std::env::current_exe().unwrap();
            let jobs = std::env::var("VERIF_JOBS")
                .ok()
                .and_then(|v| v.parse().ok())
                .unwrap_or(16);
            let opts = RunOpts {
                jobs,
                check: check.clone(),
                tier: tier.clone(),
                charge_crashes_to: checks::crashes_charged_to(check),
                undecided_cap: 25,
            };
            let seed: u64 = std::env::var("VERIF_SEED")
                .ok()
                .and_then(|v| v.parse().ok())
                .unwrap_or(0);
            let mut fam_json = vec![];
            let mut samples = vec![];
            for (i, f) in fams.iter().enumerate() {
                let r = run_family(f.as_ref(), i, &opts, &exe);
                eprintln!(
                    "[{check}/{tier}] family {} : {} cases, {} evaluated, {} formats, {} violations, {} undecided, {:.1}s{}",
                    r.name,
                    r.len,
                    r.stats.evaluations,
                    r.stats.formats,
                    r.stats.violation_count,
                    r.stats.undecided_count,
                    r.wall_s,
                    if r.complete { "" } else { " (ABORTED)" }
                );
                let len = f.len();
                if len > 0 {
                    for j in 0..2u64 {
                        let idx = (seed.wrapping_mul(7919).wrapping_add(j * (len / 2 + 1) + len / 3)) % len;
                        samples.push(json!({"family": r.name, "idx": idx, "case": f.describe(idx)}));
                    }
                }
                fam_json.push(json!({
                    "name": r.name,
                    "len": r.len,
                    "complete": r.complete,
                    "wall_s": r.wall_s,
                    "transitions_per_case": r.transitions_per_case,
                    "stats": r.stats,
                }));
            }
            let res = json!({
                "check": check,
                "tier": tier,
                "seed": seed,
                "wall_s": t0.elapsed().as_secs_f64(),
                "families": fam_json,
                "samples": samples,
            });
            std::fs::write(out, serde_json::to_string(&res).unwrap()).expect("write result");
            if runner::MACHINERY_FAILED.load(std::sync::atomic::Ordering::Relaxed) {
                std::process::exit(2);
            }
        }
        "worker" => {
            if args.len() < 11 {
                usage();
            }
            let fams = checks::families(&args[2], &args[3]);
            let fi: usize = args[4].parse().unwrap();
            let skip: Vec<u64> = args[8]
                .split(',')
                .filter(|s| !s.is_empty())
                .map(|s| s.parse().unwrap())
                .collect();
            let a = WorkerArgs {
                shard: args[5].parse().unwrap(),
                shards: args[6].parse().unwrap(),
                from: args[7].parse().unwrap(),
                skip,
                slow: args[9] == "slow",
                charge_crashes_to: if args[10].is_empty() {
                    None
                } else {
                    Some(args[10].clone())
                },
            };
            runner::worker_main(fams[fi].as_ref(), a);
        }
        "replay" => {
            if args.len() < 3 {
                usage();
            }
            let text = std::fs::read_to_string(&args[2]).expect("read replay file");
            let v: Value = serde_json::from_str(&text).expect("parse replay file");
            let case = v.get("case").cloned().unwrap_or(v);
            runner::install_panic_hook();
            runner::install_log_observer();
            let mut ctx = runner::Ctx::new("replay");
            let res = runner::guarded(|| checks::replay(&case, &mut ctx));
            match res {
                Err(site) => {
                    println!("REPLAY: panic at {site}");
                    std::process::exit(1);
                }
                Ok(false) => {
                    eprintln!("unknown oracle in replay file");
                    std::process::exit(2);
                }
                Ok(true) => {}
            }
            if ctx.stats.violation_count > 0 {
                for v in &ctx.stats.violations {
                    println!("REPLAY: {} {} — {}", v.property, v.signature, v.detail);
                }
                std::process::exit(1);
            }
            println!("REPLAY: no violation");
        }
        "gen" => {
            let d: usize = args[2].parse().unwrap();
            let g = grammar::Grammar::load(d);
            let nt = g.nt(args.get(4).map(|s| s.as_str()).unwrap_or("Program"));
            let n = g.count_upto(nt, d);
            println!("{} derivations with <= {} deviations", n, d);
            if let Some(i) = args.get(3) {
                let step: u64 = i.parse().unwrap();
                let mut k = 0;
                while k < n {
                    let toks = g.nth_upto(nt, d, k);
                    let text = grammar::render_flat(&toks);
                    println!("--- {k}\n{text}");
                    let out = cfg::DEFAULT.formatter().format(&text, pasfmt_core::prelude::FileOptions::new());
                    println!(">>>\n{out}");
                    k += step;
                }
            }
        }
        "fmt" => {
            // reference rendering for an explicit configuration: stdin -> stdout, in-process
            use std::io::{Read, Write};
            let c: cfg::Cfg = serde_json::from_str(&args[2]).expect("cfg json");
            let mut input = String::new();
            std::io::stdin().read_to_string(&mut input).expect("utf-8 stdin");
            let out = c.formatter().format(&input, pasfmt_core::prelude::FileOptions::new());
            std::io::stdout().write_all(out.as_bytes()).unwrap();
        }
        "cursors" => {
            // reference cursor mapping: pasfmt-mc cursors <cfg-json> a,b,c < input  -> "a',b',c'"
            use std::io::Read;
            let c: cfg::Cfg = serde_json::from_str(&args[2]).expect("cfg json");
            let mut cur: Vec<pasfmt_core::prelude::Cursor> = args[3]
                .split(',')
                .filter(|s| !s.is_empty())
                .map(|s| pasfmt_core::prelude::Cursor(s.parse().unwrap()))
                .collect();
            let mut input = String::new();
            std::io::stdin().read_to_string(&mut input).expect("utf-8 stdin");
            let _ = c.formatter().format(&input, pasfmt_core::prelude::FileOptions::new().with_cursors(&mut cur));
            println!("{}", cur.iter().map(|c| c.0.to_string()).collect::<Vec<_>>().join(","));
        }
        "wfseeds" => {
            // the well-formed seed programs, one JSON string per line (for the CLI-level checks)
            for s in progs::load_seeds() {
                if s.well_formed {
                    println!("{}", serde_json::to_string(&s.text).unwrap());
                }
            }
        }
        "lex" => {
            let text = std::fs::read_to_string(&args[2]).expect("read");
            for t in refscan::scan(&text) {
                println!("{:?} {:?} {:?}", t.kind, t.lead(&text), t.text(&text));
            }
        }
        _ => usage(),
    }
}
