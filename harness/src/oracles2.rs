//! Relational oracles: C02, C03, C05, C06, C09, C10, C11, and the multi-line literal value model.
use crate::cfg::{BeginStyle, Cfg, Le};
use crate::grammar::{GTok, M_A, M_B, M_C, M_D, M_I, M_K, M_O, M_S, M_T, M_Y};
use crate::oracles::{case_fmt, verbatim_mask, verbatim_mask_definite};
use crate::refscan::{self as r, CommentKind, Kind, TextKind, Tok};
use crate::runner::Ctx;
use serde_json::json;

// ---------------------------------------------------------------------------------------------
// multi-line literal value model (C12, used by C02 and C09)

#[derive(Debug, Clone, PartialEq)]
pub struct MlLit {
    pub quotes: usize,
    /// (content, terminator) of every line; line 0 holds the opening quotes, the last line the
    /// closing quotes (its terminator is "")
    pub lines: Vec<(String, String)>,
    /// leading blanks of the closing line
    pub base: String,
    /// the closing line is blanks + quotes only
    pub closing_clean: bool,
    /// interior lines with the base indentation removed (None when some line violates the rule)
    pub value: Option<Vec<String>>,
}

pub fn split_lines(s: &str) -> Vec<(String, String)> {
    let mut out = vec![];
    let b = s.as_bytes();
    let mut start = 0;
    let mut i = 0;
    while i < b.len() {
        if b[i] == b'\r' && b.get(i + 1) == Some(&b'\n') {
            out.push((s[start..i].to_string(), "\r\n".to_string()));
            i += 2;
            start = i;
        } else if b[i] == b'\r' || b[i] == b'\n' {
            out.push((s[start..i].to_string(), s[i..i + 1].to_string()));
            i += 1;
            start = i;
        } else {
            i += 1;
        }
    }
    out.push((s[start..].to_string(), String::new()));
    out
}

pub fn ml_lit(text: &str) -> MlLit {
    let quotes = text.bytes().take_while(|c| *c == b'\'').count();
    let lines = split_lines(text);
    let last = &lines.last().unwrap().0;
    let base: String = last.chars().take_while(|c| r::is_blank(*c)).collect();
    let closing_clean = last[base.len()..].chars().all(|c| c == '\'');
    let mut value = Some(vec![]);
    if !closing_clean || lines.len() < 2 {
        value = None;
    } else {
        for (content, _) in &lines[1..lines.len() - 1] {
            if let Some(rest) = content.strip_prefix(base.as_str()) {
                value.as_mut().unwrap().push(rest.to_string());
            } else if base.starts_with(content.as_str()) {
                value.as_mut().unwrap().push(String::new());
            } else {
                value = None;
                break;
            }
        }
    }
    MlLit {
        quotes,
        lines,
        base,
        closing_clean,
        value,
    }
}

// ---------------------------------------------------------------------------------------------
// C02

/// documented normalisation of a line comment
pub fn norm_line_comment(c: &str) -> String {
    let is_ws = |ch: char| matches!(ch, ' ' | '\t' | '\n' | '\r' | '\x0c');
    let mut out = String::new();
    let body = &c[2..];
    let (prefix_len, rest) = match body.strip_prefix('/') {
        Some(rr) => (3, rr),
        None => (2, body),
    };
    let trimmed = rest.trim_end_matches(is_ws);
    let separator = trimmed.len() >= 10
        && trimmed.chars().next().is_some_and(|ch| !ch.is_alphanumeric())
        && trimmed.chars().all(|ch| Some(ch) == trimmed.chars().next());
    out.push_str(&c[..prefix_len]);
    if rest.chars().next().is_some_and(|ch| !(ch.is_ascii() && is_ws(ch))) && !separator {
        out.push(' ');
    }
    out.push_str(rest);
    let t = out.trim_end_matches(is_ws).len();
    out.truncate(t);
    out
}

fn is_line_comment(k: Kind) -> bool {
    matches!(
        k,
        Kind::Comment(CommentKind::InlineLine | CommentKind::IndividualLine)
    )
}

/// token texts equal modulo the documented normalisations
fn tok_equiv(x: &str, tx: &Tok, o: &str, to: &Tok, cfg: &Cfg, verbatim: bool) -> bool {
    let a = tx.text(x);
    let b = to.text(o);
    if a == b {
        return true;
    }
    if verbatim {
        return false;
    }
    match tx.kind {
        Kind::Identifier | Kind::Keyword(_) | Kind::Contextual(_) => {
            r::keyword_capable(a) && a.eq_ignore_ascii_case(b)
        }
        Kind::CompilerDirective | Kind::Conditional(_) => {
            let (lo, hi) = r::directive_name_span(a);
            a.len() == b.len()
                && a[..lo] == b[..lo]
                && a[hi..] == b[hi..]
                && a[lo..hi].eq_ignore_ascii_case(&b[lo..hi])
        }
        Kind::Comment(CommentKind::InlineLine | CommentKind::IndividualLine) => {
            norm_line_comment(a) == b
        }
        Kind::Text(TextKind::MultiLine) => {
            if !cfg.fms {
                return false;
            }
            let (la, lb) = (ml_lit(a), ml_lit(b));
            la.value.is_some() && la.value == lb.value && la.quotes == lb.quotes
        }
        _ => false,
    }
}

/// Returns true when x and out have the same tokens (modulo normalisations)
pub fn c02(x: &str, out: &str, cfg: &Cfg, ctx: &mut Ctx) -> bool {
    let tx = r::scan(x);
    let to = r::scan(out);
    let case = || case_fmt("c02", x, cfg);
    if tx.len() != to.len() {
        // find the first difference for the report
        let n = tx.len().min(to.len());
        let mut i = 0;
        while i < n && tx[i].kind == to[i].kind {
            i += 1;
        }
        ctx.fail(
            "C02",
            "token-count",
            format!(
                "{} tokens in, {} out; first kind difference at {i}: {:?} vs {:?}; output {out:?}",
                tx.len(),
                to.len(),
                tx.get(i).map(|t| t.text(x)),
                to.get(i).map(|t| t.text(out))
            ),
            case(),
        );
        return false;
    }
    let mask = verbatim_mask_definite(x, &tx);
    for i in 0..tx.len() {
        let (a, b) = (&tx[i], &to[i]);
        let kinds_equal = a.kind == b.kind
            || matches!((a.kind, b.kind), (Kind::Comment(_), Kind::Comment(_)));
        if !kinds_equal {
            ctx.fail(
                "C02",
                "token-kind",
                format!("token {i}: {:?} {:?} became {:?} {:?}; output {out:?}", a.kind, a.text(x), b.kind, b.text(out)),
                case(),
            );
            return false;
        }
        if a.kind != b.kind {
            // comment sub-kind changed: inline <-> individual, or single <-> multi line
            // (a comment behind a line comment that a lone CR ended counts as "on the same line" for
            // the lexer; the reconstructor's last-resort line break then gives it a line of its own)
            let sig = if crate::oracles::lone_cr_after_line_comment(x) { "comment-kind:line-comment-ended-by-lone-cr" } else { "comment-kind" };
            ctx.fail(
                "C02",
                sig,
                format!("comment {i} {:?}: {:?} became {:?}; output {out:?}", a.text(x), a.kind, b.kind),
                case(),
            );
            return false;
        }
        if !tok_equiv(x, a, out, b, cfg, mask[i]) {
            ctx.fail(
                "C02",
                "token-text",
                format!("token {i} ({:?}): {:?} became {:?}; output {out:?}", a.kind, a.text(x), b.text(out)),
                case(),
            );
            return false;
        }
    }
    if x != out {
        ctx.nontrivial();
    }
    true
}

/// 1: an anonymous routine sits inside a statement header, a raise statement or an until condition,
/// 2: in the initialiser of a declaration (the parser only knows anonymous routines in plain
/// statements - the C05 finding), 0: neither
pub fn anon_outside_plain_statement(toks: &[GTok]) -> u8 {
    let mut header_depth = 0u32;
    let mut raise_active = false;
    let mut decl_active = false;
    let mut res = 0u8;
    for g in toks {
        if header_depth > 0 && matches!(g.text.as_str(), "then" | "do" | "of") {
            header_depth -= 1;
        }
        if g.text == "raise" || (g.text == "until" && g.marks & M_C != 0) {
            raise_active = true;
        } else if g.marks & M_S != 0 {
            raise_active = false;
        }
        if g.marks & M_D != 0 {
            decl_active = true;
        } else if g.marks & M_S != 0 {
            decl_active = false;
        }
        if g.marks & M_A != 0 {
            if header_depth > 0 || raise_active {
                return 1;
            }
            if decl_active && res == 0 {
                res = 2;
            }
        }
        if g.marks & M_K != 0 && matches!(g.text.as_str(), "if" | "while" | "for" | "with" | "on") {
            header_depth += 1;
        }
        if g.text == "case" && g.marks & M_O != 0 {
            header_depth += 1;
        }
    }
    res
}

/// identifiers that the generator knows to be identifiers (although their spelling is that of a
/// contextual keyword) must come out with exactly their text
pub fn c02_identifiers(x: &str, toks: &[GTok], out: &str, cfg: &Cfg, ctx: &mut Ctx) {
    let tx = r::scan(x);
    let to = r::scan(out);
    let commentish = |t: &Tok| matches!(t.kind, Kind::Comment(_) | Kind::CompilerDirective | Kind::Conditional(_));
    let kx: Vec<&Tok> = tx.iter().filter(|t| !commentish(t)).collect();
    let ko: Vec<&Tok> = to.iter().filter(|t| !commentish(t)).collect();
    let gen: Vec<&GTok> = toks.iter().filter(|t| !(t.text.starts_with("{$") || t.text.starts_with('{') && t.text.ends_with('}'))).collect();
    if kx.len() != gen.len() + 1 || ko.len() != kx.len() {
        ctx.count("c02.identifier-mapping-skipped");
        return;
    }
    for (i, g) in gen.iter().enumerate() {
        if g.marks & M_I != 0 && ko[i].text(out) != g.text {
            let sig = match anon_outside_plain_statement(toks) {
                1 => "identifier-text-changed:anonymous-routine-inside-statement-header-or-raise",
                _ => "identifier-text-changed",
            };
            ctx.fail(
                "C02",
                sig,
                format!("identifier {:?} (token {i}) became {:?}; output {out:?}", g.text, ko[i].text(out)),
                json!({"oracle": "c02", "input": x, "cfg": cfg, "identifiers": gen.iter().enumerate().filter(|(_, g)| g.marks & M_I != 0).map(|(i, _)| i).collect::<Vec<_>>()}),
            );
            return;
        }
    }
}

// ---------------------------------------------------------------------------------------------
// C03

pub fn c03(x: &str, cfg: &Cfg, ctx: &mut Ctx) {
    pasfmt_core::verif::reset();
    let f1 = ctx.fmt(cfg, x);
    let f2 = ctx.fmt(cfg, &f1);
    let stale = pasfmt_core::verif::snapshot().stale_child_cache_hits;
    if f1 != x {
        ctx.nontrivial();
    }
    if f2 == f1 {
        return;
    }
    let f3 = ctx.fmt(cfg, &f2);
    let sig = if stale > 0 && f3 == f2 {
        "not-idempotent:stale-child-line-cache-during-string-reflow"
    } else if f3 == f2 {
        "not-idempotent:converges-after-two"
    } else {
        "not-idempotent:does-not-converge-after-two"
    };
    let diff = first_diff_line(&f1, &f2);
    ctx.fail(
        "C03",
        sig,
        format!("format(format(x)) != format(x); first differing line: {diff}"),
        case_fmt("c03", x, cfg),
    );
}

pub fn first_diff_line(a: &str, b: &str) -> String {
    for (i, (la, lb)) in a.lines().zip(b.lines()).enumerate() {
        if la != lb {
            return format!("line {}: {la:?} vs {lb:?}", i + 1);
        }
    }
    format!("line counts {} vs {}", a.lines().count(), b.lines().count())
}

// ---------------------------------------------------------------------------------------------
// C06

/// signature of a C06 failure. The spacing rule keeps "no space" vs "one space" of the input for
/// token pairs it has no opinion on (token_spacing.rs: max_one_either_side and the `None` entries
/// of space_operator); a failure that consists of exactly that gets its own signature.
pub fn c06_signature(x: &str, x2: &str, a: &str, b: &str) -> &'static str {
    let (tx, t2) = (r::scan(x), r::scan(x2));
    // what the formatter keeps of a gap besides its line breaks: the number of blanks after the
    // last line break
    let sb = |g: &str| g.rsplit('\n').next().unwrap_or("").len();
    let literalish = |t: &Tok| matches!(t.kind, Kind::Text(_) | Kind::Number(_) | Kind::Unknown);
    let only_zero_vs_some = tx.len() == t2.len()
        && (0..tx.len()).all(|i| {
            let (g1, g2) = (tx[i].lead(x), t2[i].lead(x2));
            if g1 == g2 {
                return true;
            }
            // a pair the spacing table has no opinion on: a literal on either side, or a bracket
            // opened after something that is neither an identifier nor a keyword
            let no_opinion = literalish(&tx[i])
                || (i > 0 && literalish(&tx[i - 1]))
                || (matches!(tx[i].kind, Kind::Op(r::Op::LParen | r::Op::LBrack)) && i > 0 && !tx[i - 1].is_word());
            no_opinion && ((sb(g1) == 0) != (sb(g2) == 0))
        });
    let _ = (a, b);
    if only_zero_vs_some {
        "layout-dependent-output:zero-vs-one-space-kept-where-spacing-has-no-opinion"
    } else {
        "layout-dependent-output"
    }
}

pub fn c06(x: &str, x2: &str, cfg: &Cfg, ctx: &mut Ctx) {
    let a = ctx.fmt(cfg, x);
    let b = ctx.fmt(cfg, x2);
    if x != x2 {
        ctx.nontrivial();
    }
    if a != b {
        ctx.fail(
            "C06",
            c06_signature(x, x2, &a, &b),
            first_diff_line(&a, &b),
            json!({"oracle": "c06", "input": x, "input2": x2, "cfg": cfg}),
        );
    }
}

// ---------------------------------------------------------------------------------------------
// C05

struct LineInfo {
    first_on_line: Vec<bool>,
    /// indentation of the physical line holding each token (None: the line starts inside a token)
    indent: Vec<Option<String>>,
}

fn line_info(out: &str, toks: &[Tok]) -> LineInfo {
    let mut first = vec![false; toks.len()];
    let mut indent: Vec<Option<String>> = vec![None; toks.len()];
    let mut cur: Option<String> = Some(String::new());
    for (i, t) in toks.iter().enumerate() {
        let lead = t.lead(out);
        if i == 0 || lead.contains('\n') {
            first[i] = true;
            let ind = lead.rsplit('\n').next().unwrap_or("");
            cur = Some(ind.to_string());
        }
        indent[i] = cur.clone();
        if t.text(out).contains('\n') {
            cur = None;
        }
    }
    LineInfo {
        first_on_line: first,
        indent,
    }
}

/// `toks` are the generator's tokens (with marks) of input `x`; `out` its formatted output
pub fn c05(x: &str, toks: &[GTok], out: &str, cfg: &Cfg, ctx: &mut Ctx) {
    let tx = r::scan(x);
    let to = r::scan(out);
    if to.len() != tx.len() {
        ctx.count("c05.skipped-token-mapping");
        return;
    }
    // comments and directives inserted by the transformers are not generator tokens: map the
    // generator's tokens to the remaining ones by ordinal
    let commentish = |t: &Tok| matches!(t.kind, Kind::Comment(_) | Kind::CompilerDirective | Kind::Conditional(_));
    let keep: Vec<usize> = (0..tx.len()).filter(|&i| !commentish(&tx[i])).collect();
    // (the grammar itself has a few productions with directive tokens: they are not mapped either)
    let is_commentish_text = |t: &GTok| t.text.starts_with("{$") || t.text.starts_with("//") || t.text.starts_with("(*") || (t.text.starts_with('{') && t.text.ends_with('}'));
    let mut gen: Vec<GTok> = vec![];
    for t in toks {
        if is_commentish_text(t) {
            // the stack pops recorded on a dropped token move to the token before it
            if let Some(last) = gen.last_mut() {
                last.pop_k += t.pop_k;
                last.pop_o += t.pop_o;
            }
        } else {
            gen.push(t.clone());
        }
    }
    let toks = &gen[..];
    if keep.len() != toks.len() + 1 {
        ctx.count("c05.skipped-token-mapping");
        return;
    }
    let li_all = line_info(out, &to);
    let li = LineInfo {
        first_on_line: keep.iter().map(|&i| li_all.first_on_line[i]).collect(),
        indent: keep.iter().map(|&i| li_all.indent[i].clone()).collect(),
    };
    let unit = cfg.indent_unit();
    let case = || {
        json!({"oracle": "c05", "input": x, "cfg": cfg,
               "gtoks": toks.iter().map(|t| json!([t.text, t.marks, t.pop_k, t.pop_o])).collect::<Vec<_>>()})
    };
    let mut ostack: Vec<Option<String>> = vec![];
    let mut kstack: Vec<Option<String>> = vec![];
    // text of the controlling statement's first token and the indentation of the line holding it
    let mut kline: Vec<(String, Option<String>)> = vec![];
    let mut checked = 0;
    // indentation of the line that starts the most recent declaration member
    let mut last_decl: Option<String> = None;
    // inside the header of a control statement (between its first token and then/do/of)?
    let mut header_depth = 0u32;
    // 0: none, 1: inside a statement header / raise, 2: inside the initialiser of a declaration
    let mut anon_in_header = 0u8;
    let mut decl_active = false;
    let mut raise_active = false;
    // a comment (not an inline block comment) right after `class` / `interface` ... and before the
    // ancestor list: the header is then not recognised (known finding)
    let comment_in_type_header = (1..tx.len().saturating_sub(1)).any(|i| {
        commentish(&tx[i])
            && tx[i].kind != Kind::Comment(CommentKind::InlineBlock)
            && matches!(tx[i - 1].text(x).to_ascii_lowercase().as_str(), "class" | "interface" | "dispinterface" | "object" | "record" | "helper")
            && (tx[i + 1].text(x) == "(" || tx[i + 1].text(x).eq_ignore_ascii_case("for") || tx[i + 1].text(x).eq_ignore_ascii_case("of") || tx[i + 1].text(x) == ";")
    });
    // a break-forcing comment (anything but a one-line block comment kept inline) right after the
    // `of object` of a procedural type: the optimiser finds no layout at all (known finding)
    let comment_after_of_object = (2..tx.len()).any(|i| {
        commentish(&tx[i])
            && (tx[i].kind != Kind::Comment(CommentKind::InlineBlock) || tx[i].text(x).contains('\n'))
            && tx[i - 1].text(x).eq_ignore_ascii_case("object")
            && tx[i - 2].text(x).eq_ignore_ascii_case("of")
    });
    // an attribute directly after `helper for T`: `T [Attr]` is read as an indexed name
    let attribute_after_helper_for = (3..tx.len()).any(|i| {
        tx[i].text(x) == "[" && tx[i - 1].kind == Kind::Identifier && tx[i - 2].text(x).eq_ignore_ascii_case("for") && tx[i - 3].text(x).eq_ignore_ascii_case("helper")
    });
    // ... or between the ancestor list of a body-less class / interface and its `;`
    let comment_in_type_header = comment_in_type_header
        || (2..tx.len().saturating_sub(1)).any(|i| {
            if !(commentish(&tx[i]) && tx[i].kind != Kind::Comment(CommentKind::InlineBlock) && tx[i - 1].text(x) == ")" && tx[i + 1].text(x) == ";") {
                return false;
            }
            let mut depth = 0i32;
            let mut j = i - 1;
            loop {
                match tx[j].text(x) {
                    ")" => depth += 1,
                    "(" => depth -= 1,
                    _ => {}
                }
                if depth == 0 || j == 0 {
                    break;
                }
                j -= 1;
            }
            j > 0 && matches!(tx[j - 1].text(x).to_ascii_lowercase().as_str(), "class" | "interface" | "dispinterface" | "object" | "record")
        });
    // a break-forcing comment between the `;` of a routine header and its external / forward directive
    let comment_before_external = (1..tx.len().saturating_sub(1)).any(|i| {
        commentish(&tx[i])
            && tx[i].kind != Kind::Comment(CommentKind::InlineBlock)
            && tx[i - 1].text(x) == ";"
            && matches!(tx[i + 1].text(x).to_ascii_lowercase().as_str(), "external" | "forward")
    });
    // a comment between a goto label and its colon: the label is then not recognised
    let comment_in_label = (2..tx.len().saturating_sub(1)).any(|i| {
        commentish(&tx[i])
            && tx[i + 1].kind == Kind::Op(r::Op::Colon)
            && matches!(tx[i - 1].kind, Kind::Identifier | Kind::Number(_))
            && (tx[i - 2].text(x) == ";" || matches!(tx[i - 2].text(x).to_ascii_lowercase().as_str(), "begin" | "try" | "except" | "finally" | "repeat" | "else" | "then" | "do"))
    });
    let fail = |ctx: &mut Ctx, sig: &str, detail: String, anon_in_header: u8| {
        let sig = if comment_in_label && sig == "statement-placement" {
            format!("{sig}:comment-between-label-and-colon")
        } else if comment_before_external {
            format!("{sig}:comment-between-routine-header-and-external-or-forward")
        } else if sig == "declaration-placement" && comment_after_of_object {
            format!("{sig}:break-forcing-comment-after-of-object")
        } else if sig == "declaration-placement" && attribute_after_helper_for {
            format!("{sig}:attribute-directly-after-helper-for-type")
        } else if comment_in_type_header {
            format!("{sig}:comment-between-class-keyword-and-ancestor-list")
        } else if anon_in_header == 1 {
            format!("{sig}:anonymous-routine-inside-statement-header-or-raise")
        } else if anon_in_header == 2 {
            format!("{sig}:anonymous-routine-in-the-initialiser-of-a-declaration")
        } else {
            sig.to_string()
        };
        ctx.fail("C05", &sig, detail, case());
    };
    for (i, g) in toks.iter().enumerate() {
        let ind = li.indent[i].clone();
        let first = li.first_on_line[i];
        let what = |m: &str| format!("{m} token {i} {:?}", g.text);
        if header_depth > 0 && matches!(g.text.as_str(), "then" | "do" | "of") {
            header_depth -= 1;
        }
        if g.text == "raise" || (g.text == "until" && g.marks & M_C != 0) {
            // (an `until` condition is a statement header as well)
            raise_active = true;
        } else if g.marks & M_S != 0 {
            raise_active = false;
        }
        if g.marks & M_D != 0 {
            decl_active = true;
        } else if g.marks & M_S != 0 {
            decl_active = false;
        }
        if g.marks & M_A != 0 && decl_active && anon_in_header == 0 {
            anon_in_header = 2;
        }
        if g.marks & M_A != 0 && (header_depth > 0 || raise_active) {
            anon_in_header = 1;
        }
        if g.marks & M_C != 0 {
            if let Some(top) = ostack.pop() {
                if let (Some(top), Some(ind)) = (top, ind.clone()) {
                    checked += 1;
                    if !first || ind != top {
                        fail(ctx, "closer-placement", format!("{}: first_on_line={first}, indentation {ind:?}, opener line {top:?}; output {out:?}", what("closer")), anon_in_header);
                        return;
                    }
                }
            }
        }
        // a stray `;` is an empty statement that pasfmt keeps with the previous line: not a
        // "statement of a statement list" in the sense of the property
        if g.marks & (M_S | M_D) != 0 && g.text != ";" {
            let expect = match ostack.last() {
                None => Some(String::new()),
                Some(None) => None,
                Some(Some(top)) => Some(format!("{top}{unit}")),
            };
            if let (Some(expect), Some(ind)) = (expect, ind.clone()) {
                checked += 1;
                if !first || ind != expect {
                    fail(
                        ctx,
                        if g.marks & M_S != 0 { "statement-placement" } else { "declaration-placement" },
                        format!("{}: first_on_line={first}, indentation {ind:?}, expected {expect:?}; output {out:?}", what("member")),
                        anon_in_header,
                    );
                    return;
                }
            }
        }
        if g.marks & M_Y != 0 && !matches!(g.text.as_str(), ";" | "begin") && !(g.text == "if" && i > 0 && toks[i - 1].text == "else") {
            // the body statement of if / while / for / with / on (not of a case label, whose
            // statement stays on the label's line): own line, one level deeper than the line that
            // holds the controlling statement; not judged inside an anonymous routine kept inline
            let inline_anon = ostack.iter().any(|o| o.is_none());
            if let Some((kt, Some(k))) = kline.last().cloned() {
                if matches!(kt.as_str(), "if" | "while" | "for" | "with" | "on") && !inline_anon {
                    if let Some(ind) = ind.clone() {
                        checked += 1;
                        let expect = format!("{k}{unit}");
                        if !first || ind != expect {
                            fail(ctx, "body-placement", format!("{}: first_on_line={first}, indentation {ind:?}, expected {expect:?}; output {out:?}", what("body statement")), anon_in_header);
                            return;
                        }
                    }
                }
            }
        }
        if g.marks & M_D != 0 {
            last_decl = if first { ind.clone() } else { None };
        }
        if g.marks & M_B != 0 && cfg.begin == BeginStyle::AlwaysWrap {
            if let (Some(Some(k)), Some(ind)) = (kstack.last().cloned(), ind.clone()) {
                checked += 1;
                if !first || ind != k {
                    // a comment between then/do/else and the `begin` makes the block a child line of
                    // the controlling statement, one level deeper (known finding)
                    let after_comment = keep[i] > 0 && commentish(&tx[keep[i] - 1]);
                    fail(ctx, if after_comment { "begin-placement:comment-between-controlling-statement-and-begin" } else { "begin-placement" }, format!("{}: first_on_line={first}, indentation {ind:?}, controlling statement {k:?}; output {out:?}", what("begin")), anon_in_header);
                    return;
                }
            }
        }
        if g.marks & M_K != 0 {
            // the controlling statement's indentation is only defined when it starts its line
            kstack.push(if first { ind.clone() } else { None });
            kline.push((g.text.clone(), ind.clone()));
            if matches!(g.text.as_str(), "if" | "while" | "for" | "with" | "on") {
                header_depth += 1;
            }
        }
        if g.text == "case" && g.marks & M_O != 0 {
            // `case <expr> of` header
            header_depth += 1;
        }
        if g.marks & M_O != 0 {
            if g.marks & M_A != 0 && !first {
                // an anonymous routine that pasfmt keeps inline is not a rendered block
                ostack.push(None);
            } else if g.marks & M_T != 0 {
                // the block of a type declaration hangs off the line that starts the declaration
                ostack.push(last_decl.clone());
            } else if g.marks & M_B != 0 && !first {
                // a control-flow body whose `begin` ends the (possibly wrapped) header hangs off the
                // controlling statement's line; a `begin` that starts a line opens the block itself
                ostack.push(kstack.last().cloned().unwrap_or(None).or(ind.clone()));
            } else {
                ostack.push(ind.clone());
            }
        }
        for _ in 0..g.pop_k {
            kstack.pop();
            kline.pop();
        }
        for _ in 0..g.pop_o {
            ostack.pop();
        }
    }
    if checked > 0 {
        ctx.nontrivial();
        ctx.count_n("c05.placements-checked", checked);
    }
}

// ---------------------------------------------------------------------------------------------
// C09

pub fn to_lf(x: &str) -> String {
    x.replace("\r\n", "\n")
}
pub fn to_crlf(x: &str) -> String {
    to_lf(x).replace('\n', "\r\n")
}
pub fn has_lone_cr(x: &str) -> bool {
    let b = x.as_bytes();
    (0..b.len()).any(|i| b[i] == b'\r' && b.get(i + 1) != Some(&b'\n'))
}

/// does x contain a line-spanning token that is kept verbatim (so input endings may matter)?
pub fn has_line_spanning_verbatim(x: &str, cfg: &Cfg) -> bool {
    let toks = r::scan(x);
    let mask = verbatim_mask(x, &toks);
    toks.iter().enumerate().any(|(i, t)| {
        let text = t.text(x);
        let lead_nl = t.lead(x).contains('\n');
        if mask[i] && (text.contains('\n') || lead_nl) {
            return true;
        }
        if !text.contains('\n') {
            return false;
        }
        match t.kind {
            Kind::Text(TextKind::MultiLine) => !cfg.fms || ml_lit(text).value.is_none(),
            _ => true, // multi-line comments, directives, unterminated constructs
        }
    })
}

pub fn c09(x: &str, cfg: &Cfg, ctx: &mut Ctx) {
    let lf = cfg.with(|c| c.le = Le::Lf);
    let crlf = cfg.with(|c| c.le = Le::Crlf);
    let a = ctx.fmt(&lf, x);
    let b = ctx.fmt(&crlf, x);
    let case = || case_fmt("c09", x, cfg);
    let ta = r::scan(&a);
    let tb = r::scan(&b);
    if ta.len() != tb.len() {
        ctx.fail("C09", "lf-crlf-token-count", format!("lf output {a:?}; crlf output {b:?}"), case());
        return;
    }
    let ma = verbatim_mask(&a, &ta);
    for i in 0..ta.len() {
        let (p, q) = (&ta[i], &tb[i]);
        let (lp, lq) = (p.lead(&a), q.lead(&b));
        if ma[i] {
            // (the mask is a superset of what is really verbatim: a formatted token inside it may
            // differ by the emitted terminator)
            if lp.replace("\r\n", "\n") != lq.replace("\r\n", "\n")
                || p.text(&a).replace("\r\n", "\n") != q.text(&b).replace("\r\n", "\n")
            {
                ctx.fail("C09", "verbatim-differs-between-lf-and-crlf", format!("token {i}: {:?}{:?} vs {:?}{:?}", lp, p.text(&a), lq, q.text(&b)), case());
                return;
            }
            continue;
        }
        // (i) only the configured terminator
        if lq.replace("\r\n", "").contains(['\r', '\n']) {
            ctx.fail("C09", "bare-terminator-under-crlf", format!("gap {lq:?} before token {i} {:?}; crlf output {b:?}", q.text(&b)), case());
            return;
        }
        if lp.contains('\r') {
            ctx.fail("C09", "cr-under-lf", format!("gap {lp:?} before token {i} {:?}; lf output {a:?}", p.text(&a)), case());
            return;
        }
        // (ii) crlf result = lf result with terminators substituted
        if lq.replace("\r\n", "\n") != lp {
            ctx.fail("C09", "lf-crlf-gap-differs", format!("gap before token {i}: lf {lp:?}, crlf {lq:?}"), case());
            return;
        }
        let (tp, tq) = (p.text(&a), q.text(&b));
        if tp != tq {
            let rewritten = matches!(p.kind, Kind::Text(TextKind::MultiLine)) && cfg.fms && ml_lit(tp).value.is_some();
            // an unterminated construct at the very end absorbs the final terminator the formatter emits
            let absorbed_eof_terminator = i + 2 == ta.len()
                && tp.trim_end_matches(['\r', '\n']) == tq.trim_end_matches(['\r', '\n'])
                && tq.ends_with("\r\n")
                && tp.ends_with('\n');
            if !(absorbed_eof_terminator || rewritten && tq.replace("\r\n", "\n") == tp.replace("\r\n", "\n")) {
                ctx.fail("C09", "lf-crlf-token-differs", format!("token {i}: lf {tp:?}, crlf {tq:?}"), case());
                return;
            }
        }
        if matches!(p.kind, Kind::Text(TextKind::MultiLine)) && cfg.fms {
            let l = ml_lit(tq);
            if l.value.is_some() {
                if let Some((_, term)) = l.lines[..l.lines.len() - 1].iter().find(|(_, t)| t != "\r\n") {
                    ctx.fail("C09", "string-interior-terminator", format!("re-indented literal {tq:?} has terminator {term:?} under crlf"), case());
                    return;
                }
                let l2 = ml_lit(tp);
                if let Some((_, term)) = l2.lines[..l2.lines.len() - 1].iter().find(|(_, t)| t != "\n") {
                    ctx.fail("C09", "string-interior-terminator", format!("re-indented literal {tp:?} has terminator {term:?} under lf"), case());
                    return;
                }
            }
        }
    }
    // (iii) input endings do not matter
    if !has_lone_cr(x) && !has_line_spanning_verbatim(x, cfg) && x.contains('\n') {
        let xl = to_lf(x);
        let xc = to_crlf(x);
        let ol = ctx.fmt(cfg, &xl);
        let oc = ctx.fmt(cfg, &xc);
        ctx.nontrivial();
        if ol != oc {
            ctx.fail(
                "C09",
                "input-endings-matter",
                format!("{}", first_diff_line(&ol, &oc)),
                json!({"oracle": "c09", "input": x, "cfg": cfg}),
            );
            return;
        }
        if x != xl && x != xc {
            // mixed endings
            let om = ctx.fmt(cfg, x);
            if om != ol {
                ctx.fail("C09", "input-endings-matter", format!("mixed endings: {}", first_diff_line(&ol, &om)), case());
            }
        }
    } else if a != b {
        ctx.nontrivial();
    }
}

// ---------------------------------------------------------------------------------------------
// C10

#[derive(Clone, Copy, PartialEq)]
enum LineStart {
    /// the line starts between tokens
    Outside,
    /// the line starts inside a multi-line string that the formatter re-indents (its leading
    /// whitespace is produced from the indentation strings)
    InRewrittenString,
    /// the line starts inside a token that is reproduced verbatim
    InVerbatimToken,
    /// the line starts at a token that only the over-approximating mask calls verbatim (asm code in a
    /// file with conditional directives): it may or may not be formatted
    MaybeVerbatim,
}

/// (byte offset, kind) of every line start of `out`
fn line_starts(out: &str, fms: bool) -> Vec<(usize, LineStart)> {
    let toks = r::scan(out);
    let mask = verbatim_mask(out, &toks);
    let definite = verbatim_mask_definite(out, &toks);
    let mut inside: Vec<(usize, usize, LineStart)> = vec![];
    for (k, t) in toks.iter().enumerate() {
        let text = t.text(out);
        if mask[k] {
            // a verbatim token brings its own leading whitespace
            inside.push((t.ws, t.end, if definite[k] { LineStart::InVerbatimToken } else { LineStart::MaybeVerbatim }));
        } else if text.contains('\n') {
            let rewritten = fms
                && !mask[k]
                && matches!(t.kind, Kind::Text(TextKind::MultiLine))
                && ml_lit(text).value.is_some();
            inside.push((
                t.start,
                t.end,
                if rewritten { LineStart::InRewrittenString } else { LineStart::InVerbatimToken },
            ));
        }
    }
    let mut res = vec![(0usize, LineStart::Outside)];
    for (i, ch) in out.char_indices() {
        if ch == '\n' {
            let kind = inside
                .iter()
                .find(|(s, e, _)| i >= *s && i < *e)
                .map(|x| x.2)
                .unwrap_or(LineStart::Outside);
            res.push((i + 1, kind));
        }
    }
    res
}

pub fn detab(out: &str, tw: usize, fms: bool) -> String {
    let starts = line_starts(out, fms);
    let mut s = String::with_capacity(out.len() + 64);
    for (k, (pos, kind)) in starts.iter().enumerate() {
        let end = starts.get(k + 1).map(|x| x.0).unwrap_or(out.len());
        let line = &out[*pos..end];
        if *kind != LineStart::InVerbatimToken {
            let tabs = line.bytes().take_while(|c| *c == b'\t').count();
            for _ in 0..tabs * tw {
                s.push(' ');
            }
            s.push_str(&line[tabs..]);
        } else {
            s.push_str(line);
        }
    }
    s
}

pub fn c10_pair(x: &str, tw: u8, ci: u8, base: &Cfg, ctx: &mut Ctx) {
    let ct = base.with(|c| {
        c.tabs = true;
        c.tw = tw;
        c.ci = ci;
        c.wrap = u32::MAX;
    });
    let cs = ct.with(|c| c.tabs = false);
    let ot = ctx.fmt(&ct, x);
    let os = ctx.fmt(&cs, x);
    if ot != os {
        ctx.nontrivial();
    }
    if (tw as usize) * (ci as usize) > 255 {
        ctx.count("c10.saturated-config-not-compared");
        return;
    }
    let d = detab(&ot, tw as usize, base.fms);
    // lines that may or may not be verbatim are accepted in either reading
    let lenient_equal = || {
        let starts = line_starts(&ot, base.fms);
        let ld: Vec<&str> = d.split_inclusive('\n').collect();
        let lr: Vec<&str> = ot.split_inclusive('\n').collect();
        let ls: Vec<&str> = os.split_inclusive('\n').collect();
        ld.len() == ls.len()
            && lr.len() == ls.len()
            && starts.len() >= ls.len()
            && (0..ls.len()).all(|k| ld[k] == ls[k] || (starts[k].1 == LineStart::MaybeVerbatim && lr[k] == ls[k]))
    };
    if d != os && !lenient_equal() {
        ctx.fail(
            "C10",
            "tabs-vs-spaces",
            format!("tab_width={tw} continuation_indents={ci}: {}", first_diff_line(&d, &os)),
            json!({"oracle": "c10", "input": x, "cfg": base, "tw": tw, "ci": ci}),
        );
    }
}

/// indentation = levels + ci x continuations units: tabs(ci) must be linear in ci per line
pub fn c10_linear(x: &str, cis: &[u8], base: &Cfg, ctx: &mut Ctx) {
    let mk = |ci: u8| {
        base.with(|c| {
            c.tabs = true;
            c.ci = ci;
            c.wrap = u32::MAX;
        })
    };
    let o0 = ctx.fmt(&mk(0), x);
    let o1 = ctx.fmt(&mk(1), x);
    let tabs = |o: &str| -> Vec<Option<usize>> {
        let starts = line_starts(o, base.fms);
        starts
            .iter()
            .map(|(pos, kind)| {
                if *kind == LineStart::Outside {
                    Some(o[*pos..].bytes().take_while(|c| *c == b'\t').count())
                } else {
                    None
                }
            })
            .collect()
    };
    let (t0, t1) = (tabs(&o0), tabs(&o1));
    let case = |ci: u8| json!({"oracle": "c10_linear", "input": x, "cfg": base, "ci": ci});
    if t0.len() != t1.len() {
        ctx.fail("C10", "line-structure-depends-on-continuation-indents", format!("{} vs {} lines at ci 0 / 1", t0.len(), t1.len()), case(1));
        return;
    }
    for &ci in cis {
        let o = ctx.fmt(&mk(ci), x);
        let t = tabs(&o);
        if t.len() != t0.len() {
            ctx.fail("C10", "line-structure-depends-on-continuation-indents", format!("{} vs {} lines at ci 0 / {ci}", t0.len(), t.len()), case(ci));
            return;
        }
        for k in 0..t.len() {
            if let (Some(a), Some(b), Some(c)) = (t0[k], t1[k], t[k]) {
                if b < a || c != a + (b - a) * ci as usize {
                    ctx.fail("C10", "indentation-not-levels-plus-ci-times-continuations", format!("line {}: {a} tabs at ci=0, {b} at ci=1, {c} at ci={ci}", k + 1), case(ci));
                    return;
                }
                // a line without leading indentation characters other than tabs
                let line_start = line_starts(&o, base.fms)[k].0;
                if o[line_start + c..].starts_with(' ') {
                    ctx.fail("C10", "space-in-tab-indentation", format!("line {} of ci={ci} output has a space after its tabs", k + 1), case(ci));
                    return;
                }
            }
        }
    }
    if t1 != t0 {
        ctx.nontrivial();
    }
}

/// Continuations follow the bracket nesting (texts without anonymous routines and multi-line tokens,
/// width unconstrained): a line that starts directly inside a bracket pair opened on an earlier line
/// carries exactly one continuation more than the opener's line, a line that starts with the
/// closing bracket carries the opener's line's count, and the levels are the same for both.
/// levels / continuations per line are read from the tab runs at ci = 0 and ci = 1.
pub fn c10_bracket_conts(x: &str, base: &Cfg, ctx: &mut Ctx) {
    let mk = |ci: u8| {
        base.with(|c| {
            c.tabs = true;
            c.ci = ci;
            c.wrap = u32::MAX;
        })
    };
    let (o0, o1) = (ctx.fmt(&mk(0), x), ctx.fmt(&mk(1), x));
    let tabs = |o: &str| -> Vec<usize> { o.split('\n').map(|l| l.bytes().take_while(|c| *c == b'\t').count()).collect() };
    let (t0, t1) = (tabs(&o0), tabs(&o1));
    let case = || json!({"oracle": "c10_brackets", "input": x, "cfg": base});
    if t0.len() != t1.len() || t0.iter().zip(&t1).any(|(a, b)| b < a) {
        ctx.fail("C10", "line-structure-depends-on-continuation-indents", format!("{} vs {} lines at ci 0 / 1", t0.len(), t1.len()), case());
        return;
    }
    let toks = r::scan(&o1);
    if toks.iter().any(|t| t.text(&o1).contains('\n')) {
        ctx.count("c10_brackets.skipped-multi-line-token");
        return;
    }
    let line_of = |pos: usize| o1[..pos].matches('\n').count();
    // stack of opener lines
    let mut stack: Vec<usize> = vec![];
    let mut prev_line = usize::MAX;
    for t in &toks {
        if t.kind == Kind::Eof {
            break;
        }
        let line = line_of(t.start);
        let first_on_line = line != prev_line;
        prev_line = line;
        let closes = matches!(t.kind, Kind::Op(r::Op::RParen | r::Op::RBrack));
        if first_on_line && !t.is_comment() {
            if let Some(&open_line) = stack.last() {
                if open_line < line {
                    let (lv, ct) = (t0[line], t1[line] - t0[line]);
                    let (olv, oct) = (t0[open_line], t1[open_line] - t0[open_line]);
                    let want = if closes { oct } else { oct + 1 };
                    if lv != olv || ct != want {
                        ctx.fail(
                            "C10",
                            "continuations-do-not-follow-bracket-nesting",
                            format!("line {}: {lv} levels + {ct} continuations, the bracket was opened on line {} with {olv} levels + {oct} continuations", line + 1, open_line + 1),
                            case(),
                        );
                        return;
                    }
                }
            }
        }
        match t.kind {
            Kind::Op(r::Op::LParen | r::Op::LBrack) => stack.push(line),
            Kind::Op(r::Op::RParen | r::Op::RBrack) => {
                stack.pop();
            }
            _ => {}
        }
    }
    ctx.nontrivial();
}

/// indentation = levels x unit + continuations x min(255, ci x tw) in space mode, for every (tw, ci)
/// including the saturating ones; levels and continuations per line are read from the tab runs at
/// ci = 0 and ci = 1 (with the width unconstrained the line structure does not depend on them)
pub fn c10_units(x: &str, tws: &[u8], cis: &[u8], base: &Cfg, ctx: &mut Ctx) {
    let mk = |tabs: bool, tw: u8, ci: u8| {
        base.with(|c| {
            c.tabs = tabs;
            c.tw = tw;
            c.ci = ci;
            c.wrap = u32::MAX;
        })
    };
    let lead = |o: &str, ch: u8| -> Vec<Option<usize>> {
        line_starts(o, base.fms)
            .iter()
            .map(|(pos, kind)| {
                if *kind == LineStart::Outside {
                    Some(o[*pos..].bytes().take_while(|c| *c == ch).count())
                } else {
                    None
                }
            })
            .collect()
    };
    let o0 = ctx.fmt(&mk(true, 2, 0), x);
    let o1 = ctx.fmt(&mk(true, 2, 1), x);
    // with hard tabs the unit is one tab inside a re-indented literal as well: its lines carry the
    // indentation string of the line that holds the opening quotes
    if base.fms {
        for o in [&o0, &o1] {
            let toks = r::scan(o);
            let mask = verbatim_mask(o, &toks);
            for (k, t) in toks.iter().enumerate() {
                if mask[k] || t.kind != Kind::Text(TextKind::MultiLine) {
                    continue;
                }
                let l = ml_lit(t.text(o));
                if l.value.is_none() {
                    continue;
                }
                let line_start = o[..t.start].rfind('\n').map(|p| p + 1).unwrap_or(0);
                let open: String = o[line_start..].chars().take_while(|c| *c == '\t' || *c == ' ').collect();
                if l.base != open || !l.base.bytes().all(|c| c == b'\t') {
                    ctx.fail(
                        "C10",
                        "literal-indentation-not-in-tab-units",
                        format!("use_tabs=true: a re-indented literal is indented {:?}, the line of its opening quotes {:?}; output {o:?}", l.base, open),
                        json!({"oracle": "c10_units", "input": x, "cfg": base, "tw": 2, "ci": 0}),
                    );
                    return;
                }
            }
        }
    }
    let t0 = lead(&o0, b'\t');
    let t1 = lead(&o1, b'\t');
    if t0.len() != t1.len() {
        return; // reported by c10_linear
    }
    for &tw in tws {
        for &ci in cis {
            let o = ctx.fmt(&mk(false, tw, ci), x);
            let sp = lead(&o, b' ');
            if sp.len() != t0.len() {
                ctx.fail("C10", "line-structure-depends-on-indentation-settings", format!("tab_width={tw} continuation_indents={ci}: {} lines vs {}", sp.len(), t0.len()), json!({"oracle": "c10_units", "input": x, "cfg": base, "tw": tw, "ci": ci}));
                return;
            }
            let cont = (tw as usize * ci as usize).min(255);
            for k in 0..sp.len() {
                if let (Some(l), Some(lc), Some(s)) = (t0[k], t1[k], sp[k]) {
                    if lc < l {
                        return;
                    }
                    let want = l * tw as usize + (lc - l) * cont;
                    if s != want {
                        ctx.fail(
                            "C10",
                            "indentation-not-levels-plus-continuations",
                            format!("tab_width={tw} continuation_indents={ci}: line {} has {s} spaces, expected {l} x {tw} + {} x min(255, {ci} x {tw}) = {want}", k + 1, lc - l),
                            json!({"oracle": "c10_units", "input": x, "cfg": base, "tw": tw, "ci": ci}),
                        );
                        return;
                    }
                }
            }
        }
    }
    ctx.nontrivial();
}

// ---------------------------------------------------------------------------------------------
// C11

/// longest physical line, not counting lines that lie wholly inside a multi-line token (the
/// wrapper cannot do anything about those)
fn max_line(o: &str) -> usize {
    if !o.contains("'''") && !o.contains('{') && !o.contains("(*") {
        return o.split('\n').map(|l| l.trim_end_matches('\r').len()).max().unwrap_or(0);
    }
    let toks = r::scan(o);
    let spans: Vec<(usize, usize)> = toks.iter().filter(|t| t.text(o).contains('\n')).map(|t| (t.start, t.end)).collect();
    let mut best = 0;
    let mut pos = 0;
    for l in o.split('\n') {
        let (s, e) = (pos, pos + l.len());
        pos = e + 1;
        // wholly inside: the line starts after the token start and its terminator is still inside the token
        let interior = spans.iter().any(|(ts, te)| s > *ts && e < *te);
        if !interior {
            best = best.max(l.trim_end_matches('\r').len());
        }
    }
    best
}
fn line_count(o: &str) -> usize {
    o.split('\n').count()
}

pub fn c11(x: &str, widths: &[u32], base: &Cfg, ctx: &mut Ctx) {
    let outs: Vec<String> = widths
        .iter()
        .map(|w| ctx.fmt(&base.with(|c| c.wrap = *w), x))
        .collect();
    if !x.is_ascii() || r::scan(&outs[0]).iter().any(|t| t.text(&outs[0]).contains('\n')) {
        ctx.count("c11.skipped-non-ascii-or-multiline-token");
        return;
    }
    let mut any_diff = false;
    for i in 0..widths.len() {
        for j in (i + 1)..widths.len() {
            let (w1, w2) = (widths[i] as usize, widths[j] as usize);
            let (o1, o2) = (&outs[i], &outs[j]);
            if o1 != o2 {
                any_diff = true;
            }
            let case = || json!({"oracle": "c11", "input": x, "cfg": base, "w1": w1, "w2": w2});
            if max_line(o2) <= w1 && o1 != o2 {
                ctx.fail("C11", "narrower-differs-though-wider-fits", format!("W1={w1} W2={w2}: {}", first_diff_line(o1, o2)), case());
                return;
            }
            if line_count(o2) > line_count(o1) {
                let sig = if max_line(o1) > w1 {
                    "more-lines-when-wider:over-limit-at-narrower-width"
                } else {
                    "more-lines-when-wider"
                };
                ctx.fail("C11", sig, format!("W1={w1}: {} lines, W2={w2}: {} lines; {}", line_count(o1), line_count(o2), first_diff_line(o1, o2)), case());
                if sig == "more-lines-when-wider" {
                    return;
                }
            }
            if max_line(o1) <= w1 && max_line(o2) > w2 {
                ctx.fail("C11", "fits-narrow-but-not-wide", format!("W1={w1} fits, W2={w2} has a line of {}", max_line(o2)), case());
                return;
            }
        }
    }
    if any_diff {
        ctx.nontrivial();
    }
}

/// C11 over a dense range of widths: outs[k] is the output at widths[k] (ascending). Uses the
/// structure of the three clauses: (a) for every W2, every W1 in [longest line of out(W2), W2) must
/// give the identical text; (b) the line count never grows from one width to the next; (c) once
/// every line fits, it keeps fitting.
/// which kind of line the first difference between two outputs sits on (part of the signature, so
/// that the width-dependent choices the optimiser makes today in routine/property headers and on
/// lines with comments do not hide a new width dependence elsewhere)
fn c11_line_class_x(x: &str, a: &str, b: &str) -> &'static str {
    let c = c11_line_class(a, b);
    if c != "routine-or-property-header" {
        // a comment right after a case / variant-record label (`1: // c`)
        let t = r::scan(x);
        if (1..t.len()).any(|i| t[i].is_comment() && t[i - 1].kind == Kind::Op(r::Op::Colon)) {
            return "comment-after-case-label";
        }
        // a comment on the same source line directly after a conditional directive that the parser
        // gives a line of its own (`if a {$IFDEF X} {c} and b`): the comment is measured as if it
        // followed the statement text before the directive
        if (1..t.len()).any(|i| {
            t[i].is_comment() && matches!(t[i - 1].kind, Kind::Conditional(_)) && !x[t[i].ws..t[i].start].contains(['\n', '\r'])
        }) {
            return "comment-on-the-line-of-a-conditional-directive";
        }
        // chained index brackets `a[i][j]` in a line that has to be broken inside the chain: the
        // search returns to the first undecided break when a token overflows, and whether it then
        // breaks before `[` or after it depends on which token overflowed first, i.e. on the width
        if c == "plain-line" && (1..t.len()).any(|i| t[i].kind == Kind::Op(r::Op::LBrack) && t[i - 1].kind == Kind::Op(r::Op::RBrack)) {
            return "chained-index-brackets";
        }
    }
    c
}

fn c11_line_class(a: &str, b: &str) -> &'static str {
    let (la, lb) = a
        .lines()
        .zip(b.lines())
        .find(|(p, q)| p != q)
        .unwrap_or(("", ""));
    let both = format!("{la}\n{lb}").to_ascii_lowercase();
    let has_word = |w: &str| {
        both.split(|c: char| !c.is_ascii_alphanumeric() && c != '_').any(|t| t == w)
    };
    if ["procedure", "function", "constructor", "destructor", "operator", "property"].iter().any(|w| has_word(w)) {
        "routine-or-property-header"
    } else if both.contains("//") || both.contains('{') || both.contains("(*") {
        "line-with-comment"
    } else {
        "plain-line"
    }
}

/// the text with a 2-byte and a 3-byte character appended to every plain identifier (and put inside
/// every single-line string literal): the token sequence keeps its kinds, every line gets longer in
/// bytes than in characters
pub fn non_ascii_variant(x: &str) -> String {
    let mut o = String::with_capacity(x.len() * 2);
    let mut pos = 0;
    for t in r::scan(x) {
        o.push_str(&x[pos..t.end]);
        pos = t.end;
        let txt = t.text(x);
        match t.kind {
            Kind::Identifier if !t.asm && !txt.starts_with('&') => o.push_str("\u{e9}\u{20ac}"),
            Kind::Text(r::TextKind::SingleLine) if txt.len() >= 2 && txt.ends_with('\'') && !t.asm => {
                o.pop();
                o.push_str("\u{e9}\u{20ac}'");
            }
            _ => {}
        }
    }
    o.push_str(&x[pos..]);
    o
}

/// C11 on a text that may hold non-ASCII characters: widths are bytes per line, which is what the
/// wrapper itself counts (token content length in bytes)
pub fn c11_dense_bytes(x: &str, widths: &[u32], base: &Cfg, tag: Option<&'static str>, ctx: &mut Ctx) {
    c11_dense_impl(x, widths, base, tag, true, ctx)
}

pub fn c11_dense(x: &str, widths: &[u32], base: &Cfg, tag: Option<&'static str>, ctx: &mut Ctx) {
    c11_dense_impl(x, widths, base, tag, false, ctx)
}

fn c11_dense_impl(x: &str, widths: &[u32], base: &Cfg, tag: Option<&'static str>, non_ascii: bool, ctx: &mut Ctx) {
    use std::hash::{Hash, Hasher};
    pasfmt_core::verif::reset();
    let outs: Vec<String> = widths.iter().map(|w| ctx.fmt(&base.with(|c| c.wrap = *w), x)).collect();
    // the stale child-line cache of the re-flow (the C03 finding) also makes results width dependent
    let tag = if pasfmt_core::verif::snapshot().stale_child_cache_hits > 0 {
        Some("stale-child-line-cache-during-string-reflow")
    } else {
        tag
    };
    if !x.is_ascii() && !non_ascii {
        ctx.count("c11.skipped-non-ascii");
        return;
    }
    let hashes: Vec<u64> = outs
        .iter()
        .map(|o| {
            let mut h = std::collections::hash_map::DefaultHasher::new();
            o.hash(&mut h);
            h.finish()
        })
        .collect();
    let maxl: Vec<usize> = outs.iter().map(|o| max_line(o)).collect();
    let lines: Vec<usize> = outs.iter().map(|o| line_count(o)).collect();
    let case = |i: usize, j: usize| json!({"oracle": "c11", "input": x, "cfg": base, "w1": widths[i], "w2": widths[j]});
    let mut any_diff = false;
    for j in 0..widths.len() {
        if j > 0 && hashes[j] != hashes[j - 1] {
            any_diff = true;
        }
        // (a)
        for i in 0..j {
            if maxl[j] <= widths[i] as usize && hashes[i] != hashes[j] {
                let sig = format!("narrower-differs-though-wider-fits:{}", tag.unwrap_or_else(|| c11_line_class_x(x, &outs[i], &outs[j])));
                ctx.fail("C11", &sig, format!("W1={} W2={}: the result for W2 has no line longer than {} yet W1 gives another text: {}", widths[i], widths[j], maxl[j], first_diff_line(&outs[i], &outs[j])), case(i, j));
                return;
            }
        }
        if j > 0 {
            let i = j - 1;
            // (b)
            if lines[j] > lines[i] {
                let over = maxl[i] > widths[i] as usize;
                let sig = if over { "more-lines-when-wider:over-limit-at-narrower-width".to_string() } else { format!("more-lines-when-wider:{}", tag.unwrap_or_else(|| c11_line_class_x(x, &outs[i], &outs[j]))) };
                ctx.fail("C11", &sig, format!("W1={}: {} lines, W2={}: {} lines; {}", widths[i], lines[i], widths[j], lines[j], first_diff_line(&outs[i], &outs[j])), case(i, j));
                if !over {
                    return;
                }
            }
            // (c)
            if maxl[i] <= widths[i] as usize && maxl[j] > widths[j] as usize {
                let sig = format!("fits-narrow-but-not-wide:{}", tag.unwrap_or_else(|| c11_line_class_x(x, &outs[i], &outs[j])));
                ctx.fail("C11", &sig, format!("W1={} fits, W2={} has a line of {}: {}", widths[i], widths[j], maxl[j], first_diff_line(&outs[i], &outs[j])), case(i, j));
                return;
            }
        }
    }
    if any_diff {
        ctx.nontrivial();
    }
}
