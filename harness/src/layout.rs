//! Layout / comment / directive transformers over generated programs (token lists).
use crate::grammar::GTok;
use crate::refscan as r;

#[derive(Debug, Clone, Copy, PartialEq, Eq)]
pub enum Base {
    /// canonical pretty print: one statement per line (rule based)
    L0,
    /// everything on one line where legal
    L1,
    /// a line break in every gap
    L2,
}

/// gap[i] = whitespace before token i; gap[0] is always ""
pub fn base_gaps(toks: &[GTok], base: Base) -> Vec<String> {
    let frozen = frozen_gaps(toks);
    let mut gaps = Vec::with_capacity(toks.len());
    let mut depth = 0i32;
    for (i, t) in toks.iter().enumerate() {
        if i == 0 {
            gaps.push(String::new());
        } else if frozen[i] || t.hard_nl {
            gaps.push(if t.hard_nl { "\n" } else { " " }.to_string());
        } else {
            let prev = toks[i - 1].text.as_str();
            let g = match base {
                Base::L1 => " ",
                Base::L2 => "\n",
                Base::L0 => {
                    let after = matches!(
                        prev,
                        "begin" | "try" | "except" | "finally" | "repeat" | "interface"
                            | "implementation" | "initialization" | "finalization" | "type"
                            | "var" | "const" | "uses" | "of"
                    ) || (prev == ";" && depth == 0);
                    let before = matches!(
                        t.text.as_str(),
                        "end" | "until" | "except" | "finally" | "begin" | "implementation"
                    );
                    if after || before {
                        "\n"
                    } else {
                        " "
                    }
                }
            };
            gaps.push(g.to_string());
        }
        match t.text.as_str() {
            "(" | "[" => depth += 1,
            ")" | "]" => depth -= 1,
            _ => {}
        }
    }
    gaps
}

/// gaps that re-layouts must not touch: everything inside `asm ... end` (the instruction lines are
/// layout sensitive by design) including the gap before the closing `end`
pub fn frozen_gaps(toks: &[GTok]) -> Vec<bool> {
    let mut out = vec![false; toks.len()];
    let mut in_asm = false;
    for (i, t) in toks.iter().enumerate() {
        if in_asm {
            out[i] = true;
            if t.text == "end" {
                in_asm = false;
            }
        } else if t.text == "asm" {
            in_asm = true;
        }
    }
    out
}

pub fn render(toks: &[GTok], gaps: &[String]) -> String {
    let mut s = String::new();
    for (i, t) in toks.iter().enumerate() {
        s.push_str(&gaps[i]);
        s.push_str(&t.text);
    }
    s
}

/// Do `a` and `b` scan (with R) to the same token texts and kinds? Used by every transformer to
/// assert that a re-layout kept what it promised to keep.
pub fn same_tokens(a: &str, b: &str) -> bool {
    let ta = r::scan(a);
    let tb = r::scan(b);
    ta.len() == tb.len()
        && ta
            .iter()
            .zip(&tb)
            .all(|(x, y)| x.kind == y.kind && x.text(a) == y.text(b))
}

/// alternative spellings of one gap (deviation alphabet), given its current value
pub fn gap_alternatives(cur: &str) -> Vec<&'static str> {
    let all: [&'static str; 7] = [" ", "\n", "", "   ", "\t", "\n      ", " \n"];
    all.iter().copied().filter(|g| *g != cur).collect()
}

/// comment texts inserted by the comment transformer: (text, needs a line break after)
pub const COMMENTS: &[(&str, bool)] = &[
    ("{c}", false),
    ("(*c*)", false),
    ("//c", true),
    ("// c  ", true),
    ("{c\nd}", false),
    ("///doc", true),
    ("//----------", true),
];

/// Inserts comment `k` into gap `i` (before token i, i >= 1) in placement `p`:
/// 0 = inline (" c "), 1 = on its own line ("\n c \n"), 2 = trailing ("  c\n"),
/// 3 = trailing, the next line indented by three blanks ("  c\n   ").
pub fn with_comment(toks: &[GTok], gaps: &[String], i: usize, k: usize, p: usize) -> String {
    let (c, needs_nl) = COMMENTS[k];
    let mut s = String::new();
    for (j, t) in toks.iter().enumerate() {
        if j == i {
            let after = if needs_nl || p >= 1 { "\n" } else { " " };
            match p {
                0 => {
                    s.push(' ');
                    s.push_str(c);
                    s.push_str(after);
                }
                1 => {
                    s.push('\n');
                    s.push_str(c);
                    s.push('\n');
                }
                2 => {
                    s.push_str("  ");
                    s.push_str(c);
                    s.push('\n');
                }
                _ => {
                    s.push_str("  ");
                    s.push_str(c);
                    s.push_str("\n   ");
                }
            }
        } else {
            s.push_str(&gaps[j]);
        }
        s.push_str(&t.text);
    }
    s
}

/// Wraps the token span [a, b) in conditional directives, shape `k`:
/// 0: {$IFDEF X} s {$ENDIF}   1: {$IFDEF X} s {$ELSE} s {$ENDIF}   2: {$IF defined(X)} s {$ELSEIF Y} s {$ELSE} s {$IFEND}
pub fn with_directive(toks: &[GTok], gaps: &[String], a: usize, b: usize, k: usize) -> String {
    let span = |s: &mut String| {
        for j in a..b {
            if j > a {
                s.push_str(&gaps[j]);
            }
            s.push_str(&toks[j].text);
        }
    };
    let mut s = String::new();
    for j in 0..a {
        s.push_str(&gaps[j]);
        s.push_str(&toks[j].text);
    }
    match k {
        0 => {
            s.push_str("\n{$IFDEF X}\n");
            span(&mut s);
            s.push_str("\n{$ENDIF}\n");
        }
        1 => {
            s.push_str("\n{$IFDEF X}\n");
            span(&mut s);
            s.push_str("\n{$ELSE}\n");
            span(&mut s);
            s.push_str("\n{$ENDIF}\n");
        }
        _ => {
            s.push_str("\n{$IF defined(X)}\n");
            span(&mut s);
            s.push_str("\n{$ELSEIF Y}\n");
            span(&mut s);
            s.push_str("\n{$ELSE}\n");
            span(&mut s);
            s.push_str("\n{$IFEND}\n");
        }
    }
    for j in b..toks.len() {
        if j > b {
            s.push_str(&gaps[j]);
        }
        s.push_str(&toks[j].text);
    }
    s
}

/// whole-subtree spans (start, end) of the given nonterminals
pub fn spans(toks: &[GTok], nts: &[usize]) -> Vec<(usize, usize)> {
    let mut out = vec![];
    for (i, t) in toks.iter().enumerate() {
        for &(nt, len) in &t.starts {
            if nts.contains(&nt) && len > 0 {
                out.push((i, i + len));
            }
        }
    }
    out
}
