//! R — the reference scanner.
//!
//! A deliberately boring, character-at-a-time re-implementation of the Delphi lexical rules
//! that `DelphiLexer` documents (see recon/refscan-spec.md). No tables, no SIMD, no memchr.
//! It is the oracle of C13 and the token classifier used by the oracles of other properties.

#[derive(Debug, Clone, Copy, PartialEq, Eq, Hash)]
pub enum CommentKind {
    InlineBlock,
    IndividualBlock,
    MultilineBlock,
    InlineLine,
    IndividualLine,
}

#[derive(Debug, Clone, Copy, PartialEq, Eq, Hash)]
pub enum TextKind {
    SingleLine,
    MultiLine,
    Asm,
    Unterminated,
}

#[derive(Debug, Clone, Copy, PartialEq, Eq, Hash)]
pub enum NumKind {
    Decimal,
    Octal,
    Hex,
    Binary,
}

#[derive(Debug, Clone, Copy, PartialEq, Eq, Hash)]
pub enum CondKind {
    If,
    Ifdef,
    Ifndef,
    Ifopt,
    Elseif,
    Else,
    Ifend,
    Endif,
}

#[derive(Debug, Clone, Copy, PartialEq, Eq, Hash)]
pub enum Op {
    Plus,
    Minus,
    Star,
    Slash,
    Assign,
    Comma,
    Semicolon,
    Colon,
    Equal,
    NotEqual,
    LessThan,
    LessEqual,
    GreaterThan,
    GreaterEqual,
    LBrack,
    RBrack,
    LParen,
    RParen,
    Caret,
    AddressOf,
    Dot,
    DotDot,
}

#[derive(Debug, Clone, Copy, PartialEq, Eq, Hash)]
pub enum Kind {
    /// identifier that is not one of the 122 words (or is escaped / follows a dot / asm mode)
    Identifier,
    /// one of the 64 pure keywords (index into PURE)
    Keyword(usize),
    /// one of the 58 contextual keywords (index into CONTEXTUAL)
    Contextual(usize),
    Number(NumKind),
    Text(TextKind),
    Op(Op),
    Comment(CommentKind),
    CompilerDirective,
    Conditional(CondKind),
    Unknown,
    Eof,
}

#[derive(Debug, Clone, Copy, PartialEq, Eq)]
pub struct Tok {
    /// start of the leading blanks
    pub ws: usize,
    /// start of the content
    pub start: usize,
    /// end (exclusive) of the content
    pub end: usize,
    pub kind: Kind,
    /// lexed in asm mode and not the `end` that closes the block
    pub asm: bool,
}

impl Tok {
    pub fn text<'a>(&self, s: &'a str) -> &'a str {
        &s[self.start..self.end]
    }
    pub fn lead<'a>(&self, s: &'a str) -> &'a str {
        &s[self.ws..self.start]
    }
    pub fn is_comment(&self) -> bool {
        matches!(self.kind, Kind::Comment(_))
    }
    pub fn is_word(&self) -> bool {
        matches!(
            self.kind,
            Kind::Identifier | Kind::Keyword(_) | Kind::Contextual(_)
        )
    }
}

pub const PURE: [&str; 64] = [
    "and", "array", "as", "asm", "begin", "case", "class", "const", "constructor", "destructor",
    "dispinterface", "div", "do", "downto", "else", "end", "except", "exports", "file",
    "finalization", "finally", "for", "function", "goto", "if", "implementation", "in",
    "inherited", "initialization", "inline", "interface", "is", "label", "library", "mod", "nil",
    "not", "object", "of", "or", "packed", "procedure", "program", "property", "raise", "record",
    "repeat", "resourcestring", "set", "shl", "shr", "string", "then", "threadvar", "to", "try",
    "type", "unit", "until", "uses", "var", "while", "with", "xor",
];

pub const CONTEXTUAL: [&str; 58] = [
    "absolute", "abstract", "align", "assembler", "at", "automated", "cdecl", "contains",
    "default", "delayed", "deprecated", "dispid", "dynamic", "experimental", "export", "external",
    "far", "final", "forward", "helper", "implements", "index", "local", "message", "name", "near",
    "nodefault", "on", "operator", "out", "overload", "override", "package", "pascal", "platform",
    "private", "protected", "public", "published", "read", "readonly", "reference", "register",
    "reintroduce", "requires", "resident", "safecall", "sealed", "static", "stdcall", "stored",
    "strict", "unsafe", "varargs", "virtual", "winapi", "write", "writeonly",
];

pub fn is_blank(c: char) -> bool {
    c <= '\u{20}' || c == '\u{3000}'
}

fn is_ident_char(c: char) -> bool {
    c.is_ascii_alphanumeric() || c == '_' || (c >= '\u{80}' && c != '\u{3000}')
}

/// case-insensitive keyword classification of a word
pub fn classify_word(word: &str) -> Kind {
    let lower = word.to_ascii_lowercase();
    for (i, w) in PURE.iter().enumerate() {
        if *w == lower {
            return Kind::Keyword(i);
        }
    }
    for (i, w) in CONTEXTUAL.iter().enumerate() {
        if *w == lower {
            return Kind::Contextual(i);
        }
    }
    Kind::Identifier
}

pub fn keyword_capable(word: &str) -> bool {
    classify_word(word) != Kind::Identifier
}

struct Scanner<'a> {
    s: &'a str,
    b: &'a [u8],
    is_first: bool,
    in_asm: bool,
    prev_real: Option<Kind>,
}

#[derive(Clone, Copy, PartialEq)]
enum Block {
    Brace,
    ParenStar,
}

impl<'a> Scanner<'a> {
    fn at(&self, i: usize) -> Option<u8> {
        self.b.get(i).copied()
    }
    fn char_at(&self, i: usize) -> Option<char> {
        self.s[i..].chars().next()
    }

    fn skip_blanks(&self, mut i: usize) -> usize {
        while let Some(c) = self.char_at(i) {
            if is_blank(c) {
                i += c.len_utf8();
            } else {
                break;
            }
        }
        i
    }

    fn ident_run(&self, mut i: usize) -> usize {
        while let Some(c) = self.char_at(i) {
            if is_ident_char(c) {
                i += c.len_utf8();
            } else {
                break;
            }
        }
        i
    }

    fn run(&self, mut i: usize, f: impl Fn(u8) -> bool) -> usize {
        while let Some(c) = self.at(i) {
            if f(c) {
                i += 1;
            } else {
                break;
            }
        }
        i
    }

    /// end of input minus trailing blanks (never before `from`)
    fn eof_minus_trailing_blanks(&self, from: usize) -> usize {
        let mut end = self.s.len();
        let tail = &self.s[from..];
        for c in tail.chars().rev() {
            if is_blank(c) {
                end -= c.len_utf8();
            } else {
                break;
            }
        }
        end.max(from)
    }

    fn block_comment_end(&self, i: usize, kind: Block) -> Option<usize> {
        // i is just after the opener
        let mut j = i;
        while j < self.b.len() {
            match kind {
                Block::Brace => {
                    if self.b[j] == b'}' {
                        return Some(j + 1);
                    }
                }
                Block::ParenStar => {
                    if self.b[j] == b'*' && self.at(j + 1) == Some(b')') {
                        return Some(j + 2);
                    }
                }
            }
            j += 1;
        }
        None
    }

    /// Scans a text literal starting at `start` (byte is `'` or `#`). Returns (end, kind).
    fn text_literal(&self, start: usize) -> (usize, TextKind) {
        let mut i = start;
        // multi-line literal?
        if self.at(i) == Some(b'\'') {
            let n = self.run(i, |c| c == b'\'') - i;
            if n >= 3 && n % 2 == 1 && matches!(self.at(i + n), Some(b'\r') | Some(b'\n')) {
                let body_start = i + n;
                // first later occurrence of n consecutive quotes
                let mut j = body_start;
                while j + n <= self.b.len() {
                    if self.b[j..j + n].iter().all(|&c| c == b'\'') {
                        return (j + n, TextKind::MultiLine);
                    }
                    j += 1;
                }
                return (self.s.len(), TextKind::Unterminated);
            }
        }
        loop {
            // (a) escaped characters
            while self.at(i) == Some(b'#') {
                i += 1;
                match self.at(i) {
                    Some(c) if c.is_ascii_digit() || c == b'_' => {
                        i = self.run(i, |c| c.is_ascii_digit() || c == b'_');
                    }
                    Some(b'$') => {
                        // an empty digit run ends the literal (unterminated) after the `$`
                        let e = self.run(i + 1, |c| c.is_ascii_hexdigit() || c == b'_');
                        if e == i + 1 {
                            return (i + 1, TextKind::Unterminated);
                        }
                        i = e;
                    }
                    Some(b'%') => {
                        let e = self.run(i + 1, |c| c == b'0' || c == b'1' || c == b'_');
                        if e == i + 1 {
                            return (i + 1, TextKind::Unterminated);
                        }
                        i = e;
                    }
                    _ => return (i, TextKind::Unterminated),
                }
            }
            // (b) quoted part
            if self.at(i) != Some(b'\'') {
                return (i, TextKind::SingleLine);
            }
            i += 1;
            loop {
                match self.at(i) {
                    Some(b'\'') => {
                        i += 1;
                        break;
                    }
                    Some(b'\n') | Some(b'\r') => return (i, TextKind::Unterminated),
                    None => return (i, TextKind::Unterminated),
                    Some(_) => i += 1,
                }
            }
        }
    }

    fn directive_name_end(&self, i: usize) -> usize {
        self.run(i, |c| c.is_ascii_alphanumeric() || c == b'_')
    }

    /// i = index of the opener's first byte. Returns (end, kind)
    fn directive(&self, start: usize, block: Block) -> (usize, Kind) {
        let name_start = start + if block == Block::Brace { 2 } else { 3 };
        let name_end = self.directive_name_end(name_start);
        let name = self.s[name_start..name_end].to_ascii_lowercase();
        let cond = match name.as_str() {
            "if" => Some(CondKind::If),
            "ifdef" => Some(CondKind::Ifdef),
            "ifndef" => Some(CondKind::Ifndef),
            "ifopt" => Some(CondKind::Ifopt),
            "elseif" => Some(CondKind::Elseif),
            "else" => Some(CondKind::Else),
            "ifend" => Some(CondKind::Ifend),
            "endif" => Some(CondKind::Endif),
            _ => None,
        };
        let kind = match cond {
            Some(c) => Kind::Conditional(c),
            None => Kind::CompilerDirective,
        };
        let end = if matches!(cond, Some(CondKind::If) | Some(CondKind::Elseif)) {
            self.directive_expr_end(name_end, block)
        } else {
            self.block_comment_end(name_end, block)
        };
        match end {
            Some(e) => (e, kind),
            None => (self.eof_minus_trailing_blanks(start), kind),
        }
    }

    /// scan an `$if`/`$elseif` expression from i to the closing terminator of `block`
    fn directive_expr_end(&self, mut i: usize, block: Block) -> Option<usize> {
        loop {
            let c = self.at(i)?;
            match c {
                b'}' if block == Block::Brace => return Some(i + 1),
                b'*' if block == Block::ParenStar && self.at(i + 1) == Some(b')') => {
                    return Some(i + 2)
                }
                b'{' => {
                    if self.at(i + 1) == Some(b'$') {
                        let (e, _) = self.directive_opt(i, Block::Brace)?;
                        i = e;
                    } else {
                        i = self.block_comment_end(i + 1, Block::Brace)?;
                    }
                }
                b'(' if self.at(i + 1) == Some(b'*') => {
                    if self.at(i + 2) == Some(b'$') {
                        let (e, _) = self.directive_opt(i, Block::ParenStar)?;
                        i = e;
                    } else {
                        i = self.block_comment_end(i + 2, Block::ParenStar)?;
                    }
                }
                b'\'' => {
                    let (e, k) = self.text_literal(i);
                    let _ = k;
                    i = e;
                }
                b'/' if self.at(i + 1) == Some(b'/') => {
                    i = self.run(i, |c| c != b'\n' && c != b'\r');
                }
                _ => i += 1,
            }
        }
    }

    /// nested directive: None when it runs to EOF
    fn directive_opt(&self, start: usize, block: Block) -> Option<(usize, Kind)> {
        let name_start = start + if block == Block::Brace { 2 } else { 3 };
        let name_end = self.directive_name_end(name_start);
        let name = self.s[name_start..name_end].to_ascii_lowercase();
        let end = if name == "if" || name == "elseif" {
            self.directive_expr_end(name_end, block)?
        } else {
            self.block_comment_end(name_end, block)?
        };
        Some((end, Kind::CompilerDirective))
    }

    fn block_kind(&self, lead: &str, body: &str) -> CommentKind {
        if body.contains('\n') {
            CommentKind::MultilineBlock
        } else if lead.contains('\n') || self.is_first {
            CommentKind::IndividualBlock
        } else {
            CommentKind::InlineBlock
        }
    }

    fn comment_or_directive(&self, ws: usize, start: usize, block: Block) -> (usize, Kind) {
        let open_len = if block == Block::Brace { 1 } else { 2 };
        if self.at(start + open_len) == Some(b'$') {
            return self.directive(start, block);
        }
        match self.block_comment_end(start + open_len, block) {
            Some(e) => (
                e,
                Kind::Comment(self.block_kind(&self.s[ws..start], &self.s[start..e])),
            ),
            None => (
                self.eof_minus_trailing_blanks(start + open_len),
                Kind::Comment(CommentKind::MultilineBlock),
            ),
        }
    }

    fn decimal(&self, start: usize) -> usize {
        let mut i = self.run(start, |c| c.is_ascii_digit() || c == b'_');
        if self.at(i) == Some(b'.') {
            if let Some(c) = self.at(i + 1) {
                if c.is_ascii_digit() {
                    i = self.run(i + 1, |c| c.is_ascii_digit() || c == b'_');
                }
            }
        }
        if matches!(self.at(i), Some(b'e') | Some(b'E')) {
            i += 1;
            if matches!(self.at(i), Some(b'+') | Some(b'-')) {
                i += 1;
            }
            if self.at(i) != Some(b'_') {
                i = self.run(i, |c| c.is_ascii_digit() || c == b'_');
            }
        }
        i
    }

    fn word(&mut self, start: usize) -> (usize, Kind) {
        let end = self.ident_run(start);
        let kind = if self.prev_real == Some(Kind::Op(Op::Dot)) {
            Kind::Identifier
        } else {
            classify_word(&self.s[start..end])
        };
        self.in_asm = kind == Kind::Keyword(3);
        debug_assert_eq!(PURE[3], "asm");
        (end, kind)
    }

    fn token(&mut self, ws: usize, start: usize) -> (usize, Kind) {
        let c = self.b[start];
        let n1 = self.at(start + 1);
        if self.in_asm {
            match c {
                b'@' => {
                    let e = self.run(start + 1, |c| {
                        c.is_ascii_alphanumeric() || c == b'_' || c == b'@'
                    });
                    return (e, Kind::Identifier);
                }
                b'"' => {
                    let mut i = start + 1;
                    loop {
                        match self.at(i) {
                            None => return (i, Kind::Text(TextKind::Unterminated)),
                            Some(b'\n') | Some(b'\r') => {
                                return (i, Kind::Text(TextKind::Unterminated))
                            }
                            Some(b'"') => return (i + 1, Kind::Text(TextKind::Asm)),
                            Some(b'\\') => {
                                // a backslash skips the next byte
                                i += 1;
                                match self.at(i) {
                                    None => return (i, Kind::Text(TextKind::Unterminated)),
                                    Some(b'\n') | Some(b'\r') => {
                                        return (i, Kind::Text(TextKind::Unterminated))
                                    }
                                    Some(_) => {
                                        // skip one whole char
                                        let ch = self.char_at(i).unwrap();
                                        i += ch.len_utf8();
                                    }
                                }
                            }
                            Some(_) => i += 1,
                        }
                    }
                }
                b'0'..=b'9' => {
                    let e = self.run(start, |c| c.is_ascii_hexdigit() || c == b'_');
                    return match self.at(e) {
                        Some(b'o') | Some(b'O') => (e + 1, Kind::Number(NumKind::Octal)),
                        Some(b'h') | Some(b'H') => (e + 1, Kind::Number(NumKind::Hex)),
                        _ => {
                            if matches!(self.b[e - 1], b'b' | b'B') {
                                (e, Kind::Number(NumKind::Binary))
                            } else {
                                (e, Kind::Number(NumKind::Decimal))
                            }
                        }
                    };
                }
                b'a'..=b'z' | b'A'..=b'Z' => {
                    let e = self.ident_run(start);
                    let w = &self.s[start..e];
                    if w.eq_ignore_ascii_case("end") {
                        self.in_asm = false;
                        return (e, Kind::Keyword(15));
                    }
                    if w.eq_ignore_ascii_case("asm") {
                        return (e, Kind::Keyword(3));
                    }
                    return (e, Kind::Identifier);
                }
                _ => {}
            }
        }
        match c {
            b'(' => match n1 {
                Some(b'*') => self.comment_or_directive(ws, start, Block::ParenStar),
                Some(b'.') => (start + 2, Kind::Op(Op::LBrack)),
                _ => (start + 1, Kind::Op(Op::LParen)),
            },
            b'{' => self.comment_or_directive(ws, start, Block::Brace),
            b'/' => {
                if n1 == Some(b'/') {
                    let e = self.run(start, |c| c != b'\n' && c != b'\r');
                    let kind = if self.s[ws..start].contains('\n') || self.is_first {
                        CommentKind::IndividualLine
                    } else {
                        CommentKind::InlineLine
                    };
                    (e, Kind::Comment(kind))
                } else {
                    (start + 1, Kind::Op(Op::Slash))
                }
            }
            b':' => {
                if n1 == Some(b'=') {
                    (start + 2, Kind::Op(Op::Assign))
                } else {
                    (start + 1, Kind::Op(Op::Colon))
                }
            }
            b'<' => match n1 {
                Some(b'=') => (start + 2, Kind::Op(Op::LessEqual)),
                Some(b'>') => (start + 2, Kind::Op(Op::NotEqual)),
                _ => (start + 1, Kind::Op(Op::LessThan)),
            },
            b'>' => {
                if n1 == Some(b'=') {
                    (start + 2, Kind::Op(Op::GreaterEqual))
                } else {
                    (start + 1, Kind::Op(Op::GreaterThan))
                }
            }
            b'.' => match n1 {
                Some(b'.') => (start + 2, Kind::Op(Op::DotDot)),
                Some(b')') => (start + 2, Kind::Op(Op::RBrack)),
                _ => (start + 1, Kind::Op(Op::Dot)),
            },
            b'+' => (start + 1, Kind::Op(Op::Plus)),
            b'-' => (start + 1, Kind::Op(Op::Minus)),
            b'*' => (start + 1, Kind::Op(Op::Star)),
            b',' => (start + 1, Kind::Op(Op::Comma)),
            b';' => (start + 1, Kind::Op(Op::Semicolon)),
            b'=' => (start + 1, Kind::Op(Op::Equal)),
            b'^' => (start + 1, Kind::Op(Op::Caret)),
            b'@' => (start + 1, Kind::Op(Op::AddressOf)),
            b'[' => (start + 1, Kind::Op(Op::LBrack)),
            b']' => (start + 1, Kind::Op(Op::RBrack)),
            b')' => (start + 1, Kind::Op(Op::RParen)),
            b'\'' | b'#' => {
                let (e, k) = self.text_literal(start);
                (e, Kind::Text(k))
            }
            b'&' => {
                let i = self.run(start, |c| c == b'&');
                match self.at(i) {
                    Some(b'$') => (
                        self.run(i + 1, |c| c.is_ascii_hexdigit() || c == b'_'),
                        Kind::Number(NumKind::Hex),
                    ),
                    Some(b'%') => (
                        self.run(i + 1, |c| c == b'0' || c == b'1' || c == b'_'),
                        Kind::Number(NumKind::Binary),
                    ),
                    Some(d) if d.is_ascii_digit() => {
                        (self.decimal(i), Kind::Number(NumKind::Decimal))
                    }
                    Some(l) if l.is_ascii_alphabetic() || l == b'_' => {
                        (self.ident_run(i), Kind::Identifier)
                    }
                    Some(h) if h >= 0x80 => {
                        // the first char whole, then the identifier run
                        let ch = self.char_at(i).unwrap();
                        (self.ident_run(i + ch.len_utf8()), Kind::Identifier)
                    }
                    _ => (i, Kind::Unknown),
                }
            }
            b'%' => (
                self.run(start + 1, |c| c == b'0' || c == b'1' || c == b'_'),
                Kind::Number(NumKind::Binary),
            ),
            b'$' => (
                self.run(start + 1, |c| c.is_ascii_hexdigit() || c == b'_'),
                Kind::Number(NumKind::Hex),
            ),
            b'0'..=b'9' => (self.decimal(start), Kind::Number(NumKind::Decimal)),
            b'a'..=b'z' | b'A'..=b'Z' => self.word(start),
            b'_' => (self.ident_run(start), Kind::Identifier),
            0x80.. => {
                let ch = self.char_at(start).unwrap();
                (self.ident_run(start + ch.len_utf8()), Kind::Identifier)
            }
            _ => (start + 1, Kind::Unknown),
        }
    }
}

pub fn scan(s: &str) -> Vec<Tok> {
    let mut sc = Scanner {
        s,
        b: s.as_bytes(),
        is_first: true,
        in_asm: false,
        prev_real: None,
    };
    let mut out = Vec::new();
    let mut pos = 0;
    loop {
        let start = sc.skip_blanks(pos);
        if start >= s.len() {
            out.push(Tok {
                ws: pos,
                start: s.len(),
                end: s.len(),
                kind: Kind::Eof,
                asm: sc.in_asm,
            });
            return out;
        }
        let was_asm = sc.in_asm;
        let (end, kind) = sc.token(pos, start);
        let asm = was_asm && sc.in_asm;
        sc.is_first = false;
        if !matches!(
            kind,
            Kind::Comment(_) | Kind::CompilerDirective | Kind::Conditional(_)
        ) {
            sc.prev_real = Some(kind);
        }
        out.push(Tok {
            ws: pos,
            start,
            end,
            kind,
            asm,
        });
        pos = end;
    }
}

/// The name span of a directive token text (`{$NAME...` / `(*$NAME...`): the maximal run of
/// `[A-Za-z0-9_+\-,]` right after the `$`, as byte offsets into `text`.
pub fn directive_name_span(text: &str) -> (usize, usize) {
    let b = text.as_bytes();
    let start = if b.first() == Some(&b'{') { 2 } else { 3 };
    let mut end = start.min(b.len());
    while end < b.len()
        && (b[end].is_ascii_alphanumeric() || matches!(b[end], b'_' | b'+' | b'-' | b','))
    {
        end += 1;
    }
    (start.min(b.len()), end)
}
