"""Helpers for the CLI-level explorers: run the shipped pasfmt binary in a hermetic sandbox."""
import os, shutil, subprocess, tempfile
from common import CLI, WORK, Machinery


class Sandbox:
    """A scratch directory under /verif/work with an empty configuration file, so that no
    pasfmt.toml of an ancestor directory can leak into a run."""

    def __init__(self, tag):
        os.makedirs(WORK, exist_ok=True)
        self.dir = tempfile.mkdtemp(prefix=f"{tag}-", dir=WORK)
        d = self.dir
        while True:
            parent = os.path.dirname(d)
            if os.path.isfile(os.path.join(parent, "pasfmt.toml")):
                raise Machinery(f"a pasfmt.toml exists in ancestor {parent}; checks would not be hermetic")
            if parent == d:
                break
            d = parent
        self.empty_cfg = os.path.join(self.dir, "empty.toml")
        open(self.empty_cfg, "w").close()

    def path(self, *p):
        return os.path.join(self.dir, *p)

    def close(self):
        shutil.rmtree(self.dir, ignore_errors=True)

    def __enter__(self):
        return self

    def __exit__(self, *a):
        self.close()


def run(args, stdin=b"", cwd=None, env=None, timeout=60, hermetic_cfg=None):
    """Runs the binary; returns (returncode, stdout bytes, stderr bytes)."""
    cmd = [CLI]
    if hermetic_cfg:
        cmd += ["--config-file", hermetic_cfg]
    cmd += args
    e = dict(os.environ)
    e.pop("RAYON_NUM_THREADS", None)
    if env:
        e.update(env)
    try:
        r = subprocess.run(cmd, input=stdin, cwd=cwd, env=e, stdout=subprocess.PIPE,
                           stderr=subprocess.PIPE, timeout=timeout)
    except subprocess.TimeoutExpired:
        return (124, b"", b"TIMEOUT")
    return (r.returncode, r.stdout, r.stderr)


def fmt_stdin(data, extra=(), cfg=None):
    """stdin -> stdout formatting of raw bytes through the binary (the specification of what
    files mode must leave in a file)"""
    return run(list(extra), stdin=data, hermetic_cfg=cfg)
