"""C16 — explicit-state exploration of the CLI history machine on the real binary.

state      : what the entries x.pas / y.pas of a directory are (bytes, directory, dangling symlink, missing)
operations : files / check / stdout mode through {path, directory, glob, --files-from}, stdin->stdout, check on stdin
model      : files(s)[f] = F(s[f]) if decodable else s[f]; check/stdout leave s unchanged; check exits 0 iff s[f] == F(s[f]);
             F is the binary's own stdin->stdout run (so the model needs no formatter)
"""
import os, hashlib, collections
from common import PyFamily
import cli

OLD = 1_000_000_000  # fixed mtime (2001)

BIG = b"".join(b"x%d   :=   %d ;\n" % (i, i) for i in range(4000))  # ~ 80 KiB, shrinks a lot

ALPHABET = collections.OrderedDict([
    ("formatted", b"a;\n"),
    ("shorter-by-1", b"a ;\n"),
    ("shorter-by-many", b"a    ;\n\n\n\n\nb   ;\n"),
    ("longer", b"a;b;"),
    ("same-length", b"a ;b;\n"),
    ("empty", b""),
    ("blanks-only", b"  \n\n"),
    ("no-final-newline", b"a;"),
    ("big", BIG),
    # formatting switched off up to the end of the file, no final line terminator, a last line longer than any
    # line buffer of the standard streams
    ("off-region-long-last-line", b"a  ;\n// pasfmt off\n" + b"x := " + b"y + " * 2000 + b"z;"),
    ("invalid-utf8", b"a ;\xff\n"),
    ("invalid-utf8-after-non-ascii", "x := '".encode() + "é".encode() * 13 + b"' ;//\xff\n"),
    ("utf8-bom", b"\xef\xbb\xbfa  ;\n"),
    ("utf16le-bom", "﻿a  ;\n".encode("utf-16-le")),
    ("utf16be-bom-formatted", "﻿a;\n".encode("utf-16-be")),
    # several KiB that are already in their final form, then one change at the end (behind a BOM and without one):
    # a rewrite that skips the unchanged front must still leave exactly what stdin mode prints
    ("late-change", b"".join(b"x%d := %d;\n" % (i, i) for i in range(600)) + b"z   ;\n"),
    ("utf8-bom-late-change", b"\xef\xbb\xbf" + b"".join(b"x%d := %d;\n" % (i, i) for i in range(600)) + b"z   ;\n"),
    ("utf16le-bom-late-change", ("\ufeff" + "".join("x%d := %d;\n" % (i, i) for i in range(600)) + "z   ;\n").encode("utf-16-le")),
    ("directory", ("dir",)),
    ("dangling-symlink", ("symlink",)),
    ("missing", ("missing",)),
])
# contents for the ISO-2022-JP variant of the machine: escape sequences make the byte length of a file
# independent of the length of its text (ESC ( J = JIS-Roman, ESC ( B = ASCII, ESC $ B = JIS X 0208)
ENC_VARIANT = "ISO-2022-JP"
ENC_ALPHABET = collections.OrderedDict([
    ("formatted", b"a;\n"),
    ("jis-roman-escapes", b"\x1b(Ja ;b;\x1b(B\n"),
    ("redundant-ascii-escapes", b"\x1b(Ba;b;\x1b(B"),
    ("kana-in-comment", b"a  ; //\x1b$B$\"$$\x1b(B\n"),
    ("longer", b"a;b;"),
    ("truncated-escape", b"a ;\x1b$"),
])
PAIR_ALPHABET = ["formatted", "shorter-by-many", "longer", "invalid-utf8", "utf16le-bom", "missing"]


class Machine:
    def __init__(self, sb, fam, encoding=None):
        self.sb = sb
        self.fam = fam
        self.fcache = {}
        self.d = sb.path("d")
        self.encoding = encoding
        self.cfg = sb.empty_cfg
        if encoding:
            # the same machine under a configured legacy encoding (decoded length and byte length are
            # then unrelated: escape sequences, multi-byte characters)
            self.cfg = sb.path("enc.toml")
            with open(self.cfg, "w") as fh:
                fh.write(f'encoding = "{encoding}"\n')

    def F(self, b):
        """(ok, bytes) of formatting b through stdin->stdout"""
        if b not in self.fcache:
            rc, out, err = cli.fmt_stdin(b, cfg=self.cfg)
            self.fcache[b] = (rc == 0, out, rc)
        return self.fcache[b]

    def materialise(self, state):
        import shutil
        shutil.rmtree(self.d, ignore_errors=True)
        os.makedirs(self.d)
        for name, c in state:
            p = os.path.join(self.d, name)
            if isinstance(c, bytes):
                with open(p, "wb") as fh:
                    fh.write(c)
                os.utime(p, (OLD, OLD))
            elif c == ("dir",):
                os.makedirs(p)
            elif c == ("symlink",):
                os.symlink(os.path.join(self.d, "nowhere"), p)

    def observe(self, state):
        res = []
        for name, c in state:
            p = os.path.join(self.d, name)
            if os.path.islink(p):
                res.append((name, ("symlink",), None))
            elif os.path.isdir(p):
                res.append((name, ("dir",), None))
            elif os.path.exists(p):
                res.append((name, open(p, "rb").read(), int(os.stat(p).st_mtime)))
            else:
                res.append((name, ("missing",), None))
        return res

    def args_for(self, form, names, mode):
        a = [f"--mode={mode}"]
        if form == "path":
            a += [os.path.join(self.d, n) for n in names]
        elif form == "dir":
            a += [self.d]
        elif form == "glob":
            a += [os.path.join(self.d, "*.pas")]
        elif form == "files-from":
            lst = self.sb.path("list.txt")
            with open(lst, "w") as fh:
                for n in names:
                    fh.write(os.path.join(self.d, n) + "\n")
            a += ["--files-from", lst]
        return a

    def targets(self, form, state, names):
        """entries the run operates on, with 'explicit' = named on the command line"""
        if form in ("path", "files-from"):
            return [(n, c) for (n, c) in state if n in names]
        # directory walk and glob list what exists (a dangling symlink and a directory entry included)
        return [(n, c) for (n, c) in state if c != ("missing",)]


def decode_text(b):
    if b.startswith(b"\xef\xbb\xbf"):
        return b[3:].decode("utf-8")
    if b.startswith(b"\xff\xfe"):
        return b[2:].decode("utf-16-le")
    if b.startswith(b"\xfe\xff"):
        return b[2:].decode("utf-16-be")
    return b.decode("utf-8")


def canon(state):
    h = hashlib.sha1()
    for n, c in state:
        h.update(n.encode())
        h.update(c if isinstance(c, bytes) else repr(c).encode())
        h.update(b"|")
    return h.hexdigest()


def describe(state):
    out = {}
    for n, c in state:
        if isinstance(c, bytes):
            out[n] = c[:60].decode("latin-1") + ("..." if len(c) > 60 else "")
        else:
            out[n] = c[0]
    return out


def explore_part(args):
    """BFS from a subset of the initial states (one sandbox per worker process)"""
    init, depth, part = args[:3]
    encoding = args[3] if len(args) > 3 else None
    fam = PyFamily("c16:cli-history-machine", transitions_per_case=1)
    forms = ["path", "dir", "files-from", "glob"]
    with cli.Sandbox(f"c16-{part}") as sb:
        m = Machine(sb, fam, encoding)
        seen = {canon(s): 0 for s in init}
        frontier = collections.deque((s, 0, []) for s in init)
        states = 0
        while frontier:
            state, dep, hist = frontier.popleft()
            states += 1
            names_all = [n for n, _ in state]
            for form in forms:
                subsets = [names_all] if form in ("dir", "glob") else ([[n] for n in names_all] + ([names_all] if len(names_all) > 1 else []))
                for names in subsets:
                    for mode in (("check", "files") if encoding else ("check", "stdout", "files")):
                        # multi-file operations are also run on a single worker thread (one read buffer
                        # for all files, in a deterministic order)
                        if len(names) > 1 and form != "glob":
                            step(m, fam, state, form, names, mode, hist, threads=1)
                            fam.transitions += 1
                        ok, succ = step(m, fam, state, form, names, mode, hist)
                        fam.transitions += 1
                        if mode == "files" and ok and succ is not None:
                            k = canon(succ)
                            if k not in seen and dep + 1 <= depth:
                                seen[k] = dep + 1
                                frontier.append((succ, dep + 1, hist + [f"files:{form}:{'+'.join(names)}"]))
            for n, c in state:
                if isinstance(c, bytes):
                    stdin_ops(m, fam, c, hist)
                    fam.transitions += 2
            if len(fam.samples) < 1:
                fam.samples.append({"state": describe(state), "history": hist})
        fam.states = states
        fam.count("c16.states", states)
        fam.count("c16.max-depth-reached", max(seen.values()))
    return fam.result()


def big_directory(fam, sb, n):
    """one large directory (so that several files share a worker's read buffer): files / check through the directory
    on 1, 2 and the default number of threads; every file is compared with the model"""
    m = Machine(sb, fam)
    kinds = ["shorter-by-many", "invalid-utf8", "longer", "formatted", "same-length", "utf16le-bom", "invalid-utf8", "shorter-by-1"]
    state = tuple((f"f{i:03d}.pas", ALPHABET[kinds[i % len(kinds)]]) for i in range(n))
    names = [nm for nm, _ in state]
    for threads in (1, 2, None):
        for mode in ("check", "files"):
            step(m, fam, state, "dir", names, mode, ["big-directory"], threads=threads)
            fam.transitions += 1


def count_boundaries(fam, sb):
    """exactly 256 (and 512) files that must make the exit status non-zero, with a few good ones around them"""
    m = Machine(sb, fam)
    for n in (256, 512):
        for kind, mode in (("shorter-by-1", "check"), ("invalid-utf8", "files"), ("invalid-utf8", "check")):
            state = tuple((f"g{i:03d}.pas", ALPHABET[kind]) for i in range(n)) + (("zz0.pas", ALPHABET["formatted"]), ("zz1.pas", ALPHABET["formatted"]))
            step(m, fam, state, "dir", [nm for nm, _ in state], mode, [f"{n}-failing-files"])
            fam.transitions += 1


def files_from_odd_lists(fam, sb):
    """--files-from lists with an entry that is not valid UTF-8 (a Latin-1 file name), an empty line, a CRLF list, a
    missing final newline: no listed file may be silently skipped - exit 0 means every listed file was handled"""
    m = Machine(sb, fam)
    unformatted = ALPHABET["shorter-by-many"]
    ok, formatted, _ = m.F(unformatted)
    lists = {
        "latin1-name-in-the-middle": [b"a.pas", b"caf\xe9.pas", b"c.pas", b"d.pas"],
        "latin1-name-first": [b"caf\xe9.pas", b"c.pas"],
        "crlf-list": None,
        "no-final-newline": None,
        "blank-line-in-the-middle": None,
    }
    for lname, entries in lists.items():
        for mode in ("files", "check", "stdout"):
            import shutil
            shutil.rmtree(m.d, ignore_errors=True)
            os.makedirs(m.d)
            names = entries or [b"a.pas", b"b.pas", b"c.pas"]
            paths = [os.path.join(m.d.encode(), n) for n in names]
            for pth in paths:
                with open(pth, "wb") as fh:
                    fh.write(unformatted)
                os.utime(pth, (OLD, OLD))
            lst = sb.path("odd-list.txt")
            sep = b"\r\n" if lname == "crlf-list" else b"\n"
            body = sep.join(paths)
            if lname == "blank-line-in-the-middle":
                body = paths[0] + b"\n\n" + b"\n".join(paths[1:])
            if lname != "no-final-newline":
                body += sep
            open(lst, "wb").write(body)
            rc, out, err = cli.run([f"--mode={mode}", "--files-from", lst], hermetic_cfg=m.cfg)
            fam.case(nontrivial=True)
            fam.transitions += 1
            case = {"oracle": "c16", "op": mode, "files_from_list": lname, "no_confirm": True}
            after = [open(pth, "rb").read() for pth in paths]
            touched = [a != unformatted for a in after]
            if mode != "files" and any(touched):
                fam.fail("C16", f"{mode}-mode-modified-a-file", f"list {lname}", case)
            elif mode == "files" and any(a not in (unformatted, formatted) for a in after):
                fam.fail("C16", "stale-tail-or-wrong-bytes", f"list {lname}: a listed file holds neither its old nor its formatted bytes", case)
            elif mode == "files" and rc == 0 and not all(a == formatted for a in after):
                left = [names[i].decode("latin-1") for i, a in enumerate(after) if a != formatted]
                fam.fail("C16", "exit-status", f"list {lname}: exit 0 although {left} were listed and are still unformatted; stderr {err[:200]!r}", case)
            elif mode == "check" and rc == 0:
                fam.fail("C16", "exit-status", f"list {lname}: check exits 0 although every listed file is unformatted; stderr {err[:200]!r}", case)
            elif mode == "stdout" and rc == 0 and out.count(b":\n") < len(paths):
                fam.fail("C16", "stdout-mode-output", f"list {lname}: exit 0 but only {out.count(b':' + chr(10).encode())} of {len(paths)} sections printed", case)


def explore(tier, seed):
    import concurrent.futures
    depth = 2 if tier == "quick" else 3
    init = []
    for k, c in ALPHABET.items():
        init.append((("x.pas", c),))
    pairs = PAIR_ALPHABET if tier == "thorough" else PAIR_ALPHABET[:4]
    for a in pairs:
        for b in pairs:
            init.append((("x.pas", ALPHABET[a]), ("y.pas", ALPHABET[b])))
    # file names with characters that mean something to globbing, shells or option parsing: an explicit path is a
    # path, whatever it contains
    for odd in ("u[1].pas", "sp ace.pas", "\u00fc.pas", "q?.pas", "a{b,c}.pas", "--x.pas"):
        for kind in ("shorter-by-many", "formatted", "invalid-utf8"):
            init.append(((odd, ALPHABET[kind]),))
    init.append((("u[1].pas", ALPHABET["longer"]), ("u1.pas", ALPHABET["shorter-by-1"])))
    # names that differ only in letter case are different files
    init.append((("unit1.pas", ALPHABET["longer"]), ("Unit1.pas", ALPHABET["shorter-by-many"])))
    init.append((("unit1.pas", ALPHABET["formatted"]), ("UNIT1.pas", ALPHABET["shorter-by-1"])))
    nparts = 16
    parts = [(init[i::nparts], depth, i) for i in range(nparts)]
    enc_init = [(("x.pas", c),) for c in ENC_ALPHABET.values()]
    enc_init += [(("x.pas", ENC_ALPHABET[a]), ("y.pas", ENC_ALPHABET[b])) for a in ("jis-roman-escapes", "truncated-escape") for b in ("redundant-ascii-escapes", "formatted")]
    parts += [(enc_init[i::4], depth, 100 + i, ENC_VARIANT) for i in range(4)]
    fam = PyFamily("c16:cli-history-machine", transitions_per_case=1)
    with concurrent.futures.ProcessPoolExecutor(16) as ex:
        for r in ex.map(explore_part, parts):
            st = r["stats"]
            fam.stats["evaluations"] += st["evaluations"]
            fam.stats["nontrivial"] += st["nontrivial"]
            fam.len += r["len"]
            fam.transitions += r["transitions"]
            fam.states += r["states"]
            fam.samples += r["samples"][:1]
            for k, n in st["counters"].items():
                if k == "c16.max-depth-reached":
                    fam.stats["counters"][k] = max(fam.stats["counters"].get(k, 0), n)
                else:
                    fam.count(k, n)
            fam.stats["violation_count"] += st["violation_count"]
            for k, n in st["by_signature"].items():
                fam.stats["by_signature"][k] = fam.stats["by_signature"].get(k, 0) + n
            fam.stats["violations"] += st["violations"]
    fam.samples = fam.samples[:3]
    with cli.Sandbox("c16-big") as sb:
        big_directory(fam, sb, 48 if tier == "quick" else 200)
    with cli.Sandbox("c16-count") as sb:
        count_boundaries(fam, sb)
    with cli.Sandbox("c16-lists") as sb:
        files_from_odd_lists(fam, sb)
    return [fam]


def stdin_ops(m, fam, content, hist):
    ok, out, rc = m.F(content)
    fam.case(nontrivial=ok and out != content)
    case = {"oracle": "c16", "op": "stdin", "content_hex": content[:400].hex(), "history": hist, "encoding": m.encoding}
    # check on stdin agrees with stdin->stdout
    rc2, o2, e2 = cli.run(["--mode=check"], stdin=content, hermetic_cfg=m.cfg)
    expect_ok = ok and out == content
    if (rc2 == 0) != expect_ok:
        fam.fail("C16", "check-stdin-disagrees-with-stdout-mode",
                 f"check on stdin exited {rc2} but stdin->stdout {'reproduces' if expect_ok else 'changes or rejects'} the input; stderr {e2[:200]!r}", case)
    if not ok and out:
        fam.fail("C16", "output-despite-error", f"stdin->stdout exited {rc} yet printed {out[:80]!r}", case)


def step(m, fam, state, form, names, mode, hist, threads=None):
    m.materialise(state)
    args = m.args_for(form, names, mode)
    rc, out, err = cli.run(args, hermetic_cfg=m.cfg, env=({"RAYON_NUM_THREADS": str(threads)} if threads else None))
    after = m.observe(state)
    targets = m.targets(form, state, names)
    case = {"oracle": "c16", "op": mode, "form": form, "names": names, "threads": threads, "state": describe(state), "encoding": m.encoding,
            "state_hex": {n: (c.hex() if isinstance(c, bytes) and len(c) < 2000 else None) for n, c in state}, "history": hist}
    expected = {}
    failing = set()
    changed_any = False
    for n, c in state:
        expected[n] = c
    stdout_records = []
    for n, c in targets:
        if not isinstance(c, bytes):
            failing.add(n)
            continue
        ok, fb, _ = m.F(c)
        if not ok:
            failing.add(n)
            continue
        if mode == "files":
            expected[n] = fb
            changed_any |= fb != c
        elif mode == "check":
            if fb != c:
                failing.add(n)
        else:
            try:
                stdout_records.append((os.path.join(m.d, n) + ":\n" + decode_text(fb) + "\n").encode("utf-8"))
            except UnicodeDecodeError:
                pass
    fam.case(nontrivial=changed_any or bool(failing))
    # 1. file contents
    succ = []
    for (n, got, mtime) in after:
        want = expected[n]
        if got != want:
            sig = "stale-tail-or-wrong-bytes" if mode == "files" else f"{mode}-mode-modified-a-file"
            fam.fail("C16", sig, f"{n}: expected {want[:80] if isinstance(want, bytes) else want!r}..., found {got[:120] if isinstance(got, bytes) else got!r} (lengths {len(want) if isinstance(want, bytes) else '-'} / {len(got) if isinstance(got, bytes) else '-'})", case)
            return False, None
        orig = dict(state)[n]
        if isinstance(got, bytes) and got == orig and mtime != OLD:
            fam.fail("C16", "unchanged-file-rewritten", f"{n}: content unchanged but mtime changed ({mode} mode, {form})", case)
            return False, None
        succ.append((n, got))
    # 2. exit status
    if (rc != 0) != bool(failing):
        fam.fail("C16", "exit-status", f"exit {rc}, files expected to fail: {sorted(failing)}; stderr {err[:300]!r}", case)
        return False, None
    # 3. stdout mode prints every formatted file once
    if mode == "stdout":
        for rec in stdout_records:
            if out.count(rec) != 1:
                fam.fail("C16", "stdout-mode-output", f"record {rec[:80]!r} occurs {out.count(rec)} times in stdout {out[:200]!r}", case)
                return False, None
        if sum(len(r) for r in stdout_records) != len(out):
            fam.fail("C16", "stdout-mode-output", f"stdout has {len(out)} bytes, records have {sum(len(r) for r in stdout_records)}", case)
            return False, None
    elif out:
        fam.fail("C16", "unexpected-stdout", f"{mode} mode printed {out[:100]!r}", case)
        return False, None
    # 4. after a files-mode run: check accepts, and a second run rewrites nothing (C03, CLI form)
    if mode == "files":
        good = [n for n, c in targets if isinstance(c, bytes) and m.F(c)[0]]
        if good:
            for n in good:
                os.utime(os.path.join(m.d, n), (OLD, OLD))
            rc2, _, err2 = cli.run(m.args_for("path", good, "check"), hermetic_cfg=m.cfg)
            if rc2 != 0:
                fam.fail("C16", "check-rejects-what-files-mode-wrote", f"exit {rc2}: {err2[:300]!r}", case)
                return False, None
            rc3, _, _ = cli.run(m.args_for("path", good, "files"), hermetic_cfg=m.cfg)
            for n in good:
                p = os.path.join(m.d, n)
                if int(os.stat(p).st_mtime) != OLD or open(p, "rb").read() != expected[n]:
                    fam.fail("C16", "second-files-run-rewrites", f"{n} was rewritten by a second in-place run", case)
                    return False, None
    return True, tuple(succ)


def replay(case):
    fam = PyFamily("c16-replay")
    with cli.Sandbox("c16-replay") as sb:
        m = Machine(sb, fam, case.get("encoding"))
        if case.get("op") == "stdin":
            stdin_ops(m, fam, bytes.fromhex(case["content_hex"]), [])
        else:
            state = []
            for n, d in case["state"].items():
                hx = case["state_hex"].get(n)
                if hx is not None:
                    state.append((n, bytes.fromhex(hx)))
                elif d in ("dir", "symlink", "missing"):
                    state.append((n, (d,)))
                else:
                    state.append((n, BIG))
            step(m, fam, tuple(state), case["form"], case["names"], case["op"], [], threads=case.get("threads"))
    for v in fam.stats["violations"]:
        print(f"REPLAY: {v['property']} {v['signature']} - {v['detail'][:300]}")
    if fam.stats["violation_count"]:
        return 1
    print("REPLAY: no violation")
    return 0
