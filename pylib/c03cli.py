"""C03, CLI form: `--mode=check` accepts every file that pasfmt has just written (also when other files of the same
batch are rejected) and a second in-place run rewrites nothing.

A directory of seed programs is formatted in place; the history files -> check -> files -> check is then replayed through
every path form on 1, 2 and the default number of worker threads, with 0, 1 or several unformatted / undecodable
strangers mixed into the check batch. The expected verdict of every file is its own stand-alone verdict."""
import os, json, shutil
from common import PyFamily, ROOT
import cli

OLD = 1_000_000_000
CONFIGS = [[], ["-Cwrap_column=40", "-Cbegin_style=always_wrap"], ["-Cline_ending=crlf", "-Cuse_tabs=true"]]
STRANGERS = {
    "aa_unformatted.pas": b"a   ;b  ;\n",
    "mm_unformatted.pas": b"begin x:=1;end.",
    "zz_undecodable.pas": b"a ;\xff\n",
    "m0_formatted.pas": b"a;\n",
}


def load_programs(n):
    """the first n well-formed seed programs (well-formedness is decided by the explorer's reference scanner)"""
    import subprocess
    from common import MC
    out = []
    r = subprocess.run([MC, "wfseeds"], stdout=subprocess.PIPE, check=True)
    for line in r.stdout.decode("utf-8").splitlines():
        t = json.loads(line)
        if 0 < len(t) < 4000 and "\r" not in t:
            out.append(t)
        if len(out) >= n:
            break
    return out


def explore(tier, seed):
    fam = PyFamily("c03cli:files-then-check-then-files-on-the-shipped-binary")
    nfiles = 48 if tier == "quick" else 400
    progs = load_programs(nfiles)
    if len(progs) < nfiles // 2:
        from common import Machinery
        raise Machinery("too few well-formed seed programs")
    solo = {}
    with cli.Sandbox("c03cli") as sb:
        for ci, cfg_args in enumerate(CONFIGS if tier != "quick" else CONFIGS[:2]):
            d = sb.path(f"d{ci}")
            os.makedirs(d)
            names = []
            for i, t in enumerate(progs):
                p = os.path.join(d, f"f{i:03d}.pas")
                open(p, "w", newline="").write(t)
                names.append(p)
            # pass 1: in place
            rc, out, err = cli.run(cfg_args + [d], hermetic_cfg=sb.empty_cfg)
            fam.case(nontrivial=True)
            fam.transitions += 1
            case = {"oracle": "c03cli", "config": cfg_args, "files": len(names), "no_confirm": True}
            if rc != 0:
                fam.fail("C03", "cli:first-in-place-run-failed", f"exit {rc}: {err[:300]!r}", case)
                continue
            written = {p: open(p, "rb").read() for p in names}
            for p in names:
                os.utime(p, (OLD, OLD))
            for threads in (1, 2, None):
                env = {"RAYON_NUM_THREADS": str(threads)} if threads else None
                for strangers in ([], ["aa_unformatted.pas"], ["mm_unformatted.pas", "zz_undecodable.pas", "m0_formatted.pas"], list(STRANGERS)):
                    for s in STRANGERS:
                        sp = os.path.join(d, s)
                        if os.path.exists(sp):
                            os.unlink(sp)
                    for s in strangers:
                        open(os.path.join(d, s), "wb").write(STRANGERS[s])
                    # the stand-alone verdict of every stranger under this configuration
                    bad = set()
                    for s in strangers:
                        key = (ci, s)
                        if key not in solo:
                            solo[key] = cli.run(["--mode=check"] + cfg_args, stdin=STRANGERS[s], hermetic_cfg=sb.empty_cfg)[0] != 0
                        if solo[key]:
                            bad.add(os.path.join(d, s))
                    for form in ("dir", "paths"):
                        args = ["--mode=check"] + cfg_args + ([d] if form == "dir" else sorted(names + [os.path.join(d, s) for s in strangers]))
                        rc, out, err = cli.run(args, hermetic_cfg=sb.empty_cfg, env=env)
                        fam.case(nontrivial=True)
                        fam.transitions += 1
                        c2 = dict(case, threads=threads, strangers=strangers, form=form)
                        text = err.decode("utf-8", "replace")
                        reported = {p for p in names + [os.path.join(d, s) for s in STRANGERS] if ("'" + p + "'") in text}
                        if (rc != 0) != bool(bad):
                            fam.fail("C03", "cli:check-exit-status-after-in-place-run", f"exit {rc} with rejected strangers {sorted(os.path.basename(b) for b in bad)}; stderr {text[:300]!r}", c2)
                        elif reported != bad:
                            extra = sorted(os.path.basename(p) for p in reported - bad)
                            fam.fail("C03", "cli:check-rejects-a-file-pasfmt-has-just-written", f"reported {extra[:5]} (and {len(extra)} in all) besides the strangers; {threads} threads, {form}", c2)
                for s in STRANGERS:
                    sp = os.path.join(d, s)
                    if os.path.exists(sp):
                        os.unlink(sp)
                # pass 2: in place again: nothing may be rewritten
                rc, out, err = cli.run(cfg_args + [d], hermetic_cfg=sb.empty_cfg, env=env)
                fam.case(nontrivial=True)
                fam.transitions += 1
                c2 = dict(case, threads=threads, second_run=True)
                for p in names:
                    if open(p, "rb").read() != written[p] or int(os.stat(p).st_mtime) != OLD:
                        fam.fail("C03", "cli:second-in-place-run-rewrites", f"{os.path.basename(p)} was rewritten by the second run ({threads} threads)", c2)
                        break
                if rc != 0:
                    fam.fail("C03", "cli:second-in-place-run-rewrites", f"second run exits {rc}", c2)
        fam.states = fam.len
        fam.samples = [{"files": nfiles, "configs": CONFIGS, "threads": [1, 2, "default"]}]
    return [fam]
