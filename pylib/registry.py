"""Per-property specification of the checks: level, rule text, bounds, which engines run."""

UNIVERSAL_ASSUME = [
    "release profile (no debug assertions, no overflow checks) is the verdict profile",
    "the reference scanner R was validated against DelphiLexer on the whole C13 enumeration",
    "nothing is claimed beyond the stated alphabets and length/deviation bounds",
]

CHECKS = {
    "C01": dict(
        level="exploration",
        rule="every string of the stated families (token soups over the 155-token alphabet in 12 contexts, "
             "all strings over the 54-char alphabet up to the bound) x fixed configuration set, each run through "
             "Formatter::format; cases are distinct by construction (injective enumerators); non-trivial = the "
             "formatter changed the text",
        bounds={"quick": "soup(k<=2, 5 gaps, 12 contexts) x 6 configs; chars(<=3) x 2 configs",
                "thorough": "soup(k<=2) x pairwise covering array; soup(k<=3, 3 gaps, 12 contexts) x 2 configs; chars(<=4) x 2 configs"},
        assumptions=UNIVERSAL_ASSUME,
    ),
    "C04": dict(
        level="fault_enumeration",
        crashes_are_violations=True,
        rule="every string of the stated families x configurations formatted in a watchdogged worker process; "
             "panic / hang (per-case horizon) / abort are violations; non-trivial = the formatter changed the text",
        bounds={"quick": "soup(k<=2, 5 gaps, 12 contexts) x 2 configs; soup(k<=3, gap ' ', no context)",
                "thorough": "soup(k<=3, 3 gaps, 12 contexts) x 3 configs; chars(<=4) x 2 configs"},
        assumptions=UNIVERSAL_ASSUME + ["hang horizon 1.5 s per case for inputs of <= 4 tokens; candidates re-run twice in a fresh process"],
    ),
    "C08": dict(
        level="exploration",
        rule="as C01; oracle scans the output with R and checks every inter-token gap outside verbatim units",
        bounds={"quick": "soup(k<=2, 5 gaps, 12 contexts) x 6 configs; chars(<=3) x 2 configs",
                "thorough": "soup(k<=2) x covering array; soup(k<=3) x 2 configs; chars(<=4) x 2 configs"},
        assumptions=UNIVERSAL_ASSUME,
    ),
    "C13": dict(
        level="model_checking",
        rule="every string over the 54-char alphabet up to the bound plus all soup texts, lexed by DelphiLexer and by "
             "the reference scanner R (the model); structural clauses checked on the lexer output, boundaries and kinds "
             "compared token by token; non-trivial = more than the end-of-file token",
        bounds={"quick": "chars(<=4); soup(k<=2) texts", "thorough": "chars(<=5); soup(k<=2) texts"},
        assumptions=["R is an independent re-implementation of the documented lexical rules (recon/refscan-spec.md)"],
    ),
    "C14": dict(
        level="exploration",
        rule="every string of the stated families parsed by DelphiLogicalLineParser; clauses of C14 evaluated on the "
             "lines; non-trivial = more than one logical line",
        bounds={"quick": "soup(k<=2) ; chars(<=3)", "thorough": "soup(k<=3, 3 gaps, 12 contexts); chars(<=4)"},
        assumptions=UNIVERSAL_ASSUME,
    ),
}

WF_ASSUME = UNIVERSAL_ASSUME + [
    "well-formed = derivations of the grammar G (harness/src/grammar.txt) and the seed programs of the repository's data tests that the reference scanner finds lexically sound and bracket balanced",
]

CHECKS.update({
    "C02": dict(
        level="exploration",
        rule="every derivation of grammar G with at most d deviations from the default productions (simplest first), in base "
             "layouts L0/L1/L2 and (where stated) every single gap flip, every comment of 7 kinds in every gap in 3 placements, "
             "every statement/declaration subtree wrapped in 3 conditional-directive shapes; plus the well-formed seed programs; "
             "x configurations. Output re-scanned with R and compared token by token modulo the documented normalisations. "
             "Distinct by construction; non-trivial = formatter changed the text",
        bounds={"quick": "progs(d<=2) x {L0,L1,L2} x 6 configs; progs(d<=1) x all variants x 3 configs; wf seeds x 6 configs",
                "thorough": "progs(d<=3) x {L0,L1,L2} x 3 configs; progs(d<=2) x all variants x 6 configs; progs(d<=2) x covering array; wf seeds x covering array"},
        assumptions=WF_ASSUME,
    ),
    "C03": dict(
        level="exploration",
        rule="same program space as C02; oracle format(format(x)) == format(x) byte for byte, third pass run to classify; "
             "non-trivial = first pass changed the text",
        bounds={"quick": "progs(d<=2) x {L0,L1,L2} x 6 configs; progs(d<=1) x all variants x 3 configs; wf seeds x 6 configs",
                "thorough": "progs(d<=3) x bases x 3 configs; progs(d<=2) x all variants x 6 configs; progs(d<=2) x covering array; wf seeds x covering array"},
        assumptions=WF_ASSUME + ["a violation accompanied by the hook counter stale_child_cache_hits > 0 that converges on the second pass carries the known-finding signature"],
    ),
    "C05": dict(
        level="exploration",
        rule="every derivation of G with at most d deviations; the generator marks statement-list members, declaration members, "
             "block openers/closers, control statements and body begins; the oracle maps marks to output tokens by ordinal (after "
             "the C02 oracle accepted the case) and checks first-on-line and indentation relative to the opener's line; "
             "non-trivial = at least one placement checked",
        bounds={"quick": "progs(d<=2) x {L0,L1,L2} x 5 configs with wrap_column >= 30",
                "thorough": "progs(d<=3) x bases x 3 configs; progs(d<=2) x bases and single gap flips x covering-array rows with wrap_column >= 30"},
        assumptions=WF_ASSUME + ["wrap_column >= 30 only: at narrower widths block-opening headers are themselves broken over lines",
                                 "an anonymous routine that the formatter keeps inline (opener not first on its line) is not a rendered block; an empty statement ';' is not a list member"],
    ),
    "C06": dict(
        level="exploration",
        rule="for every derivation of G (<= d deviations) the base layouts L0/L1/L2 must format identically, and so must every "
             "re-layout of L0 within the stated deviation bound (single gaps: 6 alternative spellings incl. no blank where tokens do "
             "not glue, tab, 3 spaces, newline+indent; pairs of gaps flipped; all 2^g space/newline assignments for g <= bound); same "
             "for the well-formed seeds. Gaps touching comments/directives, verbatim units, asm lines and blank-line groups are kept. "
             "Each re-layout is re-scanned with R and rejected if its tokens differ. non-trivial = re-layout differs from the base text",
        bounds={"quick": "progs(d<=2) x singles x 3 configs; wf seeds x singles x 2 configs",
                "thorough": "progs(d<=2) x singles+pairs+all 2^g (g<=12) x 6 configs; progs(d<=3) x singles x 2 configs; wf seeds x singles+2^g (g<=10) x 6 configs"},
        assumptions=WF_ASSUME,
    ),
    "C09": dict(
        level="exploration",
        rule="every soup/char string and program x {lf, crlf} x other settings; for programs and seeds additionally input "
             "line endings all-LF, all-CRLF, every single terminator flipped and every pair (<= 8 lines); clauses (i)-(iii) of the "
             "property evaluated token-wise with verbatim units masked; non-trivial = lf and crlf outputs differ or an input-ending pair was compared",
        bounds={"quick": "soup(k<=2) x 2; chars(<=3) x 2; progs(d<=1) L0+L2 x 4 configs; all seeds x 2",
                "thorough": "soup(k<=2) x 4; chars(<=4) x 2; progs(d<=2) L0+L2 x 4; all seeds x 4 with pairs"},
        assumptions=UNIVERSAL_ASSUME + ["lone CR as an input line break is outside the property's quantifier"],
    ),
    "C10": dict(
        level="exploration",
        rule="every program/seed x tab_width set x continuation_indents set x use_tabs {t,f}, wrap_column = u32::MAX; tabs result with "
             "leading tabs replaced by tab_width spaces must equal the spaces result (lines inside verbatim tokens excluded; "
             "configurations with ci*tw > 255 only run, not compared); tab counts must be linear in continuation_indents per line",
        bounds={"quick": "progs(d<=1) x 2 base configs x tw{0,1,2,4,8,85} x ci{0,1,2,3}; wf seeds x 1 base",
                "thorough": "progs(d<=2) x 2 bases x tw{0,1,2,3,4,8,16,17,85,127,128,255} x ci{0,1,2,3,15,16,127,255}; wf seeds x 2 bases"},
        assumptions=WF_ASSUME,
    ),
    "C11": dict(
        level="exploration",
        rule="every program/seed (ASCII, no multi-line tokens) formatted at every width of the set; all pairs W1 < W2 checked for the "
             "three clauses; non-trivial = some pair of outputs differs",
        bounds={"quick": "progs(d<=2) L1 x widths {16,24,30,60,120,200} (15 pairs) x 2 configs; wf seeds x 2 configs",
                "thorough": "progs(d<=3) x 13 widths (78 pairs) x 2 configs; wf seeds x 4 configs"},
        assumptions=WF_ASSUME + ["width = bytes per line, the wrapper's own measure"],
    ),
})
def _c03cli(tier, seed):
    import c03cli
    return c03cli.explore(tier, seed)


def _c15cli(tier, seed):
    import c15cli
    return c15cli.explore(tier, seed)


CHECKS.update({
    "C07": dict(
        level="exploration",
        rule="for every derivation of G (<= d deviations) rendered with upper-cased keywords and irregular gaps: every pair of gaps "
             "(i <= j, or no closing toggle) as region boundaries x toggle spellings (own-line and inline), and 6 non-toggle spellings in "
             "every gap; asm bodies from a 15-line alphabet (1 and 2 lines, 3 indentations, LF/CRLF, 3 block shapes); seeds containing "
             "toggles or asm. Oracle: tokens the independent toggle rule / asm mode mark as verbatim are byte-identical incl. their "
             "leading whitespace; keywords outside are lower-cased and whitespace outside is canonical; the text before an own-line "
             "toggle at a statement boundary equals format(prefix). non-trivial = the case has verbatim tokens",
        bounds={"quick": "progs(d<=1) x all gap pairs x 3 spellings x 2 configs; 45 asm bodies x 18 shapes x 6 configs; seeds x 6",
                "thorough": "progs(d<=1) x all gap pairs x 7 spellings x 6 configs; progs(d<=2) x 3 spellings x 1 config; 240 asm bodies x 18 x 6; seeds x covering array"},
        assumptions=UNIVERSAL_ASSUME + ["an ignored token is reproduced together with its own leading whitespace (the gap before the off comment belongs to the verbatim unit)"],
    ),
    "C12": dict(
        level="model_checking",
        rule="every multi-line literal of the stated shape space (quotes x 0..n interior lines, each with one of 7 indentation kinds x 5 "
             "contents; 5 terminator patterns incl. lone CR and mixed; 6 base indentations; 3 continuations after the closing quotes; "
             "expression positions incl. anonymous-routine body and pasfmt-off region) x configurations, formatted by the real code; the "
             "reference model computes the literal's value and the expected re-indentation; non-trivial = the case contains a literal",
        bounds={"quick": "interior lines <= 2, quotes {3,5}, 4 positions, 4 configs (3.6M cases)",
                "thorough": "interior lines <= 2 x quotes {3,5,7} x 6 positions x 6 configs; interior lines <= 3 x quotes 3 x 2 positions x 3 configs"},
        assumptions=["the value model (oracles2.rs: ml_lit) is the property's definition: interior lines minus the closing line's indentation, a blank line that is a prefix of it counts as empty"],
    ),
    "C15": dict(
        level="exploration", cli=True, python=[_c15cli],
        rule="every input of the stated families x every cursor offset on a char boundary plus len+1, len+1000, u32::MAX: all at once, "
             "each alone, and every ordered pair for inputs <= 12 bytes; output must equal the cursor-free output, cursors in range and on "
             "char boundaries, cursors inside/at end of an unchanged token keep their offset in it, cursors past the end map to the end",
        bounds={"quick": "soup(k<=2, 3 gaps, 2 contexts) x 2 configs; chars(<=2); progs(d<=1) bases; all seeds (one list each); 9720 literal texts; asm bodies",
                "thorough": "soup(k<=2, 5 gaps, 12 contexts) x 3 configs; chars(<=3); progs(d<=2) bases, progs(d<=1) comment/directive variants; seeds x 6 configs with singles; literal texts (<=2 lines); asm bodies (2 lines)"},
        assumptions=UNIVERSAL_ASSUME,
    ),
})
def _c18free(tier, seed):
    import c18free
    return c18free.explore(tier, seed)


CHECKS.update({
    "C18": dict(
        level="model_checking", cli=True, python=[_c18free],
        exhaustive_note="the controlled families (c18, c18aliased) enumerate every schedule within the preemption bound for every file list within the "
                        "length bound; the c18free family runs each batch once per thread count under the real rayon scheduler: its schedules are sampled, not enumerated",
        rule="stateless, preemption-bounded DFS over the scheduling points (pick/open/write/set_len/report/exit) of the real "
             "pasfmt::format running in-process on K controlled worker threads (verif shim); every file list over the 8-kind alphabet "
             "up to the stated length, in every order; for every complete schedule the final bytes of every file are compared with "
             "its solo result and the reported errors with the set of failing files. states = executions (complete schedules), "
             "transitions = scheduling points executed; every schedule is an execution of the real code. A second, UNCONTROLLED family "
             "(c18free) runs the shipped binary with real rayon (RAYON_NUM_THREADS varied) on the same kinds of batches plus 40/200-file "
             "batches and compares with per-file runs; it samples schedules and is labelled so",
        bounds={"quick": "lists <= 2 over 8 kinds x K{1,2} x {files,check} x <= 2 preemptions; lists <= 3 over 5 kinds x K{2,3} x files x <= 1 preemption; aliased path x K=2 x <= 2 preemptions",
                "thorough": "lists <= 3 over 8 kinds x K{1,2,3} x {files,check} x <= 2 preemptions; lists <= 2 x K{2,3} x <= 3 preemptions; aliased lists <= 2 x K{2,3} x <= 3 preemptions"},
        assumptions=["the controlled pool (one shared queue, one init() buffer per worker) is a superset of rayon's buffer-reuse patterns, not a model of rayon's internals",
                     "scheduling points sit at the file operations; code between two points runs atomically; memory orderings are not modelled (the only atomics are Relaxed stores of one constant and one monotone flag)",
                     "file-system state is rebuilt for every execution; one recorded schedule replayed twice must give identical observations"],
    ),
})
def _c16(tier, seed):
    import c16
    return c16.explore(tier, seed)


CHECKS.update({
    "C16": dict(
        level="model_checking", rust=False, cli=True, python=[_c16],
        rule="breadth-first search over the states of a directory with entries x.pas / y.pas (16-element content alphabet incl. BOMs, "
             "invalid UTF-8, 80 KiB, directory, dangling symlink, missing; pairs from a 6-element subset); in every state every operation "
             "(files/check/stdout x path, directory, glob, --files-from x every subset of names; stdin->stdout; check on stdin) is executed "
             "on the real binary and compared with the reference model; states are de-duplicated by content hash; files-mode results "
             "are successor states. states = distinct states visited, transitions = operations executed, every one on the implementation",
        bounds={"quick": "depth 2 from 16 single-file and 16 two-file initial states", "thorough": "depth 3 from 16 single-file and 36 two-file initial states"},
        assumptions=["F (what formatting a content yields) is taken from the binary's own stdin->stdout run, as the property states it",
                     "mtime is used to detect rewrites of unchanged files (files are given a fixed old mtime before each operation)"],
    ),
})
def _c17(tier, seed):
    import c17
    return c17.explore(tier, seed)


CHECKS.update({
    "C17": dict(
        level="model_checking", rust=False, cli=True, python=[_c17],
        rule="every encoding the option accepts (40 labels, plus native) x per-encoding texts (ASCII, each frozen non-ASCII character in an "
             "identifier, a string and a comment, all together) x {no BOM, UTF-8, UTF-16LE, UTF-16BE BOM with the configured encoding to be "
             "overridden} x {file in place, stdin->stdout}; malformed byte strings per encoding. Reference model: BOM + encode_E(F(decode_E(bytes))) "
             "with Python's codec on the frozen character table and F from the binary's UTF-8 path; every case runs on the real binary",
        bounds={"quick": "all encodings x all texts x 2 transports; BOM variants on the richest text per encoding; all malformed entries",
                "thorough": "BOM variants on every text"},
        assumptions=["corpus/encodings.json (frozen at the pinned tree) lists characters on which Python's codec and the WHATWG encoding agree; only those are used",
                     "F is taken from the binary's UTF-8 stdin->stdout path"],
    ),
})
def _c19(tier, seed):
    import c19
    return c19.explore(tier, seed)


CHECKS.update({
    "C19": dict(
        level="model_checking", rust=True and False, cli=True, python=[_c19],
        rule="directory chains of depth 0..4 x option sets (each option; pairs) x every subset of the sources {pasfmt.toml at the working "
             "directory / a middle ancestor / the top ancestor, --config-file, -C} with values distinct per source, plus splits of two options "
             "between file and command line; the binary's output on a probe program (one construct per option) is compared with the in-process "
             "rendering of the model's effective configuration; invalid keys/values in each source x {files mode, stdin}; missing/directory "
             "--config-file. states = source assignments, each executed on the real binary",
        bounds={"quick": "depths {0,1,2,4}; single options x all 2^5 source subsets; 7 adjacent pairs x subsets of size 2-3; 14 invalid settings x 3 sources x 2 modes",
                "thorough": "depths 0..4; all 21 pairs x all source subsets"},
        assumptions=["no pasfmt.toml exists in any ancestor of /verif/work (asserted at start-up)",
                     "the expected rendering comes from the explorer binary (FormattingConfig via toml, no config-crate layering)"],
    ),
})
CHECKS["C04"]["rule"] += ("; additionally: multi-line literal shapes, seed mutations (every prefix, single-token deletion, adjacent swap), "
                         "soups of length 4 over a 50-token alphabet, every single cursor (and pairs for inputs <= 8 bytes) on soups; work bounds from "
                         "deterministic hook counters: conditional-directive passes <= directives + 1 on every skeleton string over a 9-symbol alphabet, "
                         "and parser / wrapper work <= 64 x the per-n^3 cost measured at n <= 8 for 16 nesting / sequence constructs up to the stated size")
CHECKS["C04"]["bounds"]["quick"] += "; soup(k<=4, 50 tokens); literals(<=2 lines) x 2; chars(<=3); seed mutations x 1; skeletons(<=6); cursors on soup(k<=2, 2 contexts); scaling n<=64 x 2 configs"
CHECKS["C04"]["bounds"]["thorough"] += "; soup(k<=4, 50 tokens, 2 gaps, 3 contexts) x 2; literals(<=3 lines) x 6; seed mutations x 6; skeletons(<=8); cursors on soup(k<=2, 12 contexts) x 2 and on all seeds; scaling n<=256 x 3 configs"
CHECKS["C14"]["bounds"]["quick"] += "; directive skeletons(<=6)"
CHECKS["C14"]["bounds"]["thorough"] += "; directive skeletons(<=8); soup(k<=4, 50 tokens); well-formed clauses on progs(d<=3) bases, progs(d<=2) all variants, wf seeds"
CHECKS["C01"]["bounds"]["quick"] += "; progs(d<=1) x comment+directive variants x 2 configs"
CHECKS["C08"]["bounds"]["quick"] += "; end-of-file clause: progs(d<=2) x bases x 6 configs, wf seeds x 6"
CHECKS["C13"]["bounds"]["quick"] += "; progs(d<=1) variants and all seeds: input and formatted output"
CHECKS["C14"]["bounds"]["quick"] += "; well-formed clauses: progs(d<=2) bases, progs(d<=1) all variants, wf seeds"


def replay_python(doc):
    case = doc.get("case", doc)
    o = case.get("oracle")
    if o == "c16":
        import c16
        return c16.replay(case)
    if o == "c17":
        import c17
        return c17.replay(case)
    if o == "c19":
        import c19
        return c19.replay(case)
    print("no python replay for", o)
    return 2

# ---- additions made while strengthening the checks against seeded changes (DESIGN.md 11.5)
CHECKS["C04"]["rule"] += ("; three further scaling constructs put the nest after a 5 000-statement prefix (per-file state of the formatter far from "
                         "empty), the prefix's own cost being subtracted")
CHECKS["C05"]["rule"] += ("; the body statement of if/while/for/with/on without begin/end must start its own line one level deeper than the line "
                         "holding the controlling statement; a `begin` that starts a line opens its block itself; inline block comments in every gap of "
                         "the d<=2 programs")
CHECKS["C07"]["rule"] += ("; regions that run to the end of the file are tried with six file endings (no final terminator, trailing line comment, "
                         "block comment, code, blanks) and with lone-CR line ends around a `//` toggle; the asm alphabet has lines with conditional / "
                         "compiler directives and toggle comments inside an instruction line; asm tokens are judged unless a conditional directive outside "
                         "asm code could switch the block itself")
CHECKS["C08"]["rule"] += "; the blanks before the first token are the first line's indentation"
CHECKS["C10"]["rule"] += ("; with hard tabs every re-indented multi-line literal must carry exactly the (all-tab) indentation string of the line that "
                         "holds its opening quotes")
CHECKS["C12"]["rule"] += ("; positions 7-10: a second literal in the same logical line (a rule-breaking one before, a misplaced valid one after), the "
                         "default value of a parameter and the message of a hint directive (routine-header lines)")
CHECKS["C16"]["rule"] += ("; the same machine is also explored under `encoding = ISO-2022-JP` from states whose contents carry redundant / JIS-Roman / "
                         "JIS X 0208 escape sequences (byte length and text length move independently), modes check and files")
CHECKS["C17"]["rule"] += ("; per configured encoding one 32-file batch on one worker thread alternating rejected files (malformed in that encoding, "
                         "truncated UTF-16) and valid files: every valid file must get its stand-alone result, every rejected one stay untouched")
CHECKS["C18"]["rule"] += ("; c18free additionally checks the exit status for 0, 1, 2, 255, 256, 257, 512 (thorough: 768, 65 536) failing files among good "
                         "ones, and stdout mode on a 96-file directory with sections of 5 B to 100 KiB: the output must be the stand-alone sections in some "
                         "order, each whole and exactly once (repeated runs, 16 and 3 threads; sampled schedules)")
CHECKS["C19"]["rule"] += ("; shadowing sources that set different keys (a discovered file under --config-file, a farther file under the nearest one): nothing "
                         "of a shadowed source may leak; keys in upper / mixed case or with a hyphen are unknown keys in every source")

CHECKS["C03"]["cli"] = True
CHECKS["C03"]["python"] = [_c03cli]
CHECKS["C03"]["rule"] += ("; CLI form on the shipped binary (c03cli): a directory of seed programs is formatted in place, then `--mode=check` on the "
                         "directory and on the explicit path list must accept every written file on 1, 2 and the default number of threads - also when "
                         "0, 1 or several unformatted / undecodable strangers are part of the batch (each file's verdict is its stand-alone verdict) - and a "
                         "second in-place run must leave every mtime and byte untouched")


def _c01cli(tier, seed):
    import c01cli
    return c01cli.explore(tier, seed)


CHECKS["C01"]["cli"] = True
CHECKS["C01"]["python"] = [_c01cli]
CHECKS["C01"]["rule"] += ("; CLI form (c01cli): the shipped binary stdin -> stdout on well-formed seed programs and on texts that stress the output "
                         "path (a verbatim last line of several KiB without terminator, 80 KB without a line break, long statements, empty and "
                         "one-character inputs) behind no BOM, a UTF-8, a UTF-16LE and a UTF-16BE byte order mark: the decoded output has the same "
                         "non-blank characters, ignoring ASCII case")

# ---- additions of round 4
CHECKS["C02"]["rule"] += ("; a line comment x six line ends (LF, CRLF, lone CR, CR CR LF, CR blank LF, CR blanks) x eight successors (comments of every "
                         "kind, code, a literal, a directive, a toggle) x three places")
CHECKS["C04"]["rule"] += ("; the identifier word family (length x alignment x special character at every position) and 135 no-solution lines filled with "
                         "2-, 3- and 4-byte characters at every byte phase (the wrapper's fall-back logs the line; the in-process logger formats it); "
                         "own-line `// pasfmt off` / `on` pairs at every pair of statement-level positions of the d<=2 programs")
CHECKS["C05"]["rule"] += "; bodies of 6 000 (thorough up to 20 000) statements; case arms holding multi-line literals inside the deep-nesting family"
CHECKS["C06"]["rule"] += "; ten statements that are partly inside disabled regions (all 2^g assignments of the formatted gaps); programs that start with conditional directives"
CHECKS["C07"]["rule"] += "; a closing toggle as the last token of the file followed by five non-canonical file ends, judged with the end-of-file clause"
CHECKS["C08"]["rule"] += ("; trailing line comments in every gap of the d<=2 programs with an oddly indented next line; a disabled region from every "
                         "statement-level position to a closing toggle that is the last token, with five file ends")
CHECKS["C09"]["rule"] += ("; one or two mis-indented multi-line literals with something behind the closing quotes, at every wrap_column of a range, "
                         "LF and CRLF input")
CHECKS["C10"]["rule"] += "; the linear clause also over continuation_indents up to 255 with hard tabs; 270 / 300 nested blocks under tab_width 255"
CHECKS["C11"]["rule"] += ("; two hard-tab configurations; five single logical lines of 3 000 (thorough 6 000) elements at ten widths; "
                         "thorough: every width 8..140")
CHECKS["C12"]["rule"] += "; closing-line indentations made of NBSP / U+2003 (not blanks: the literal must stay verbatim)"
CHECKS["C13"]["rule"] += "; 560 conditional directives whose expression hides the closing bracket"
CHECKS["C14"]["rule"] += "; directive ladders, nests and in-expression ladders of 1..100, 150 and 300 branches"
CHECKS["C15"]["rule"] += "; six single tokens of 70 000 bytes with every character boundary as a cursor (all at once)"
CHECKS["C16"]["rule"] += ("; six file names with glob / shell / option characters; directories of exactly 256 and 512 failing files; --files-from lists "
                         "with a non-UTF-8 entry, CRLF, blank lines, no final terminator; a verbatim unterminated last line of 8 KB")
CHECKS["C17"]["rule"] += ("; U+FEFF / U+FFFD / U+FFFE as ordinary text behind every BOM (reference: in-process formatter); raw non-canonical "
                         "ISO-2022-JP input; a BOM that arrives on standard input in two pieces")
CHECKS["C18"]["rule"] += ("; a fourth controlled family under wrap_column=60, format_multiline_strings=false over two same-shape programs with "
                         "different child lines; c18free: a mode-000 file with the binary run as uid 65534, 150 / 600 files under RLIMIT_NOFILE=64")
CHECKS["C19"]["rule"] += "; configuration files that are not valid UTF-8, in both file sources"

# ---- additions of round 5
CHECKS["C06"]["rule"] += "; bodies of 6 000 statements in two layouts"
CHECKS["C09"]["rule"] += "; the deep-nesting family under tab widths 8 and 4 (indentations beyond 64 and 128 columns)"
CHECKS["C10"]["rule"] += "; a wrappable call at 265 levels under tab_width 255 (beyond column 65 535)"
CHECKS["C11"]["rule"] += ("; the d <= 1 programs and the seeds again with a 2-byte and a 3-byte character appended to every plain identifier "
                         "and put inside every single-line literal (widths in bytes, the wrapper's own measure)")
CHECKS["C11"]["rule"] += "; two compound statements with 1 500 (thorough 3 000) long body statements at ten widths"
CHECKS["C12"]["rule"] += "; a literal that already stands at its target indentation (six blanks) with foreign line ends"
CHECKS["C15"]["rule"] += "; 32 texts with blank-line runs inside disabled regions and asm blocks, LF / CRLF, every cursor alone"
CHECKS["C16"]["rule"] += "; two-file states whose names differ only in letter case; content that is undecodable after non-ASCII text"
CHECKS["C17"]["rule"] += "; a verbatim unterminated last line of 2.8 KB and 30 KB texts with non-ASCII characters across every 16 KiB mark"
CHECKS["C18"]["rule"] += ("; file kind `undecodable after non-ASCII text`; every batch runs on a thread of its own with a 20 s limit, a batch that "
                         "does not finish (a worker panicked or blocks for good) is the violation batch-aborted")
CHECKS["C18"]["assumptions"] = CHECKS["C18"]["assumptions"] + ["the stand-in iterator offers map / any / all with rayon's short-circuit semantics; other adaptors do not compile against it (machinery exit 2, not a verdict)"]
CHECKS["C19"]["rule"] += ("; a working directory reached through a symbolic link with and without $PWD exported (config above the real directory, a decoy "
                         "beside the link); integer-looking values for non-integer options through -C")

# ---- additions of round 6
CHECKS["C05"]["rule"] += "; implementation-level imports with argument-carrying external / forward directives followed by routines"
CHECKS["C13"]["rule"] += "; directive expressions with unterminated literals and later quotes in the text"
CHECKS["C15"]["rule"] += "; CLI cursor lists with equal offsets in a row and sentinels of 2^31 and above"
CHECKS["C19"]["rule"] += "; every second invalid-setting case runs with --log-level OFF (the verdict must not depend on the verbosity)"

# ---- additions of round 7
CHECKS["C01"]["rule"] += ("; separator-like line comments made of 2-, 3- and 4-byte characters; every keyword near-miss (one edit, or the keyword plus "
                         "any two-character tail) with an upper-case first letter inside a statement")
CHECKS["C04"]["rule"] += "; separator-like line comments made of 2-, 3- and 4-byte characters (1..12 characters, 5 trailing-blank patterns, 3 places)"
CHECKS["C06"]["rule"] += "; every line-break gap as a blank line, plain against three spellings with blanks / tabs on the blank line"
CHECKS["C07"]["rule"] += "; toggle spellings with a tab or a form feed right behind the comment opener"
CHECKS["C10"]["rule"] += ("; 1..14 nested forced breaks x 3 bracket shapes x 3 depths with the bracket clause: a line starting inside a bracket pair opened "
                         "on an earlier line carries one continuation more than the opener's line, the closer's line as many")
CHECKS["C11"]["rule"] += "; logical lines whose first token is a multi-line literal or comment with a wrappable tail"
CHECKS["C16"]["rule"] += "; 6 KB of final-form text before one change, without BOM and behind a UTF-8 / UTF-16LE BOM"
CHECKS["C17"]["rule"] += "; UTF-16LE / UTF-16BE configured without a BOM (round trips and malformed input)"

# ---- additions of round 8
CHECKS["C05"]["rule"] += "; labelled statements in the try, except and finally sections"
CHECKS["C12"]["rule"] += "; closing runs of quotes that are 2 and 4 longer than the opening run"
CHECKS["C19"]["rule"] += "; the nearest pasfmt.toml as a symbolic link to a regular file (valid / with an unknown key)"
