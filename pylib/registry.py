"""Per-property specification of the checks: level, rule text, bounds, which engines run."""

UNIVERSAL_ASSUME = [
    "release profile (no debug assertions, no overflow checks) is the verdict profile",
    "the reference scanner R was validated against DelphiLexer on the whole C13 enumeration",
    "nothing is claimed beyond the stated alphabets and length/deviation bounds",
]

CHECKS = {
    "C01": dict(
        level="exploration",
        rule="every string of the stated families (token soups over the 154-token alphabet in 12 contexts, "
             "all strings over the 47-char alphabet up to the bound) x fixed configuration set, each run through "
             "Formatter::format; cases are distinct by construction (injective enumerators); non-trivial = the "
             "formatter changed the text",
        bounds={"quick": "soup(k<=2, 5 gaps, 12 contexts) x 6 configs; chars(<=3) x 2 configs",
                "thorough": "soup(k<=2) x pairwise covering array; soup(k<=3, 3 gaps, 12 contexts) x 2 configs; chars(<=4) x 2 configs"},
        assumptions=UNIVERSAL_ASSUME,
    ),
    "C04": dict(
        level="fault_enumeration",
        crashes_are_violations=True,
        rule="every string of the stated families x configurations formatted in a watchdogged worker process; "
             "panic / hang (per-case horizon) / abort are violations; non-trivial = the formatter changed the text",
        bounds={"quick": "soup(k<=2, 5 gaps, 12 contexts) x 2 configs; soup(k<=3, gap ' ', no context)",
                "thorough": "soup(k<=3, 3 gaps, 12 contexts) x 3 configs; chars(<=4) x 2 configs"},
        assumptions=UNIVERSAL_ASSUME + ["hang horizon 1.5 s per case for inputs of <= 4 tokens; candidates re-run twice in a fresh process"],
    ),
    "C08": dict(
        level="exploration",
        rule="as C01; oracle scans the output with R and checks every inter-token gap outside verbatim units",
        bounds={"quick": "soup(k<=2, 5 gaps, 12 contexts) x 6 configs; chars(<=3) x 2 configs",
                "thorough": "soup(k<=2) x covering array; soup(k<=3) x 2 configs; chars(<=4) x 2 configs"},
        assumptions=UNIVERSAL_ASSUME,
    ),
    "C13": dict(
        level="model_checking",
        rule="every string over the 47-char alphabet up to the bound plus all soup texts, lexed by DelphiLexer and by "
             "the reference scanner R (the model); structural clauses checked on the lexer output, boundaries and kinds "
             "compared token by token; non-trivial = more than the end-of-file token",
        bounds={"quick": "chars(<=4); soup(k<=2) texts", "thorough": "chars(<=5); soup(k<=2) texts"},
        assumptions=["R is an independent re-implementation of the documented lexical rules (recon/refscan-spec.md)"],
    ),
    "C14": dict(
        level="exploration",
        rule="every string of the stated families parsed by DelphiLogicalLineParser; clauses of C14 evaluated on the "
             "lines; non-trivial = more than one logical line",
        bounds={"quick": "soup(k<=2) ; chars(<=3)", "thorough": "soup(k<=3, 3 gaps, 12 contexts); chars(<=4)"},
        assumptions=UNIVERSAL_ASSUME,
    ),
}


def replay_python(case):
    print("no python replays registered")
    return 2
