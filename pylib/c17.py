"""C17 — encodings and BOMs on the real binary, against Python's codecs restricted to the frozen
table corpus/encodings.json (characters on which the codec and the WHATWG encoding agree)."""
import os, json, concurrent.futures
from common import PyFamily, ROOT
import cli

OLD = 1_000_000_000
BOMS = {"utf-8": (b"\xef\xbb\xbf", "utf-8"), "utf-16-le": (b"\xff\xfe", "utf-16-le"), "utf-16-be": (b"\xfe\xff", "utf-16-be")}


def enc(text, entry):
    if entry["label"] == "x-user-defined":
        return bytes((ord(c) - 0xF780 + 0x80) if ord(c) >= 0xF780 else ord(c) for c in text)
    return text.encode(entry["codec"])


def texts_for(entry):
    chars = entry["chars"]
    if entry["label"] == "x-user-defined":
        chars = [chr(0xF780 + 0x41), chr(0xF780 + 0x7F), chr(0xF780)]
    out = ["a  :=  b ;\n"]
    for ch in chars:
        out.append(f"{ch}x  :=  '{ch}' ;  //{ch}\nif   {ch}x   then   begin  {ch}x ( '{ch}' ) ; end ;")
    if chars:
        allc = "".join(chars)
        out.append(f"x:={allc};{{{allc}}}\n\n\n\nprocedure   {allc} ;")
    return out


def explore(tier, seed):
    table = json.load(open(os.path.join(ROOT, "corpus", "encodings.json")))
    fam = PyFamily("c17:encodings-x-texts-x-bom-x-transport")
    with cli.Sandbox("c17") as sb:
        fcache = {}

        def F(text):
            if text not in fcache:
                rc, out, err = cli.run([], stdin=text.encode("utf-8"), hermetic_cfg=sb.empty_cfg)
                fcache[text] = out.decode("utf-8") if rc == 0 else None
            return fcache[text]

        jobs = []
        n = 0
        for label, entry in table.items():
            if entry["codec"] is None and label != "x-user-defined":
                # "replacement": every non-empty input is malformed
                jobs.append(("malformed", label, entry, b"a ;\n", None, n)); n += 1
                continue
            # (UTF-16LE / UTF-16BE can be configured like any other encoding: without a BOM they decide reading and writing)
            configured = label
            for text in texts_for(entry):
                if configured:
                    for transport in ("file", "stdin"):
                        jobs.append(("roundtrip", label, entry, text, (None, transport), n)); n += 1
                # a BOM overrides the configured encoding
                boms = list(BOMS) if tier == "thorough" or text == texts_for(entry)[-1] else []
                if label in ("UTF-16LE", "UTF-16BE"):
                    boms = ["utf-16-le" if label == "UTF-16LE" else "utf-16-be"]
                for bom in boms:
                    for transport in ("file", "stdin"):
                        jobs.append(("roundtrip", label, entry, text, (bom, transport), n)); n += 1
            for hx in entry["malformed"]:
                jobs.append(("malformed", label, entry, b"a ; //" + bytes.fromhex(hx) + b"\n", hx, n)); n += 1
                if label in ("UTF-16LE", "UTF-16BE"):
                    # configured, no BOM
                    jobs.append(("malformed", label, entry, b"", "nobom:" + hx, n)); n += 1
            # a rejected file followed by a valid one in the same invocation, on one worker (one read buffer)
            if entry["malformed"] and label not in ("UTF-16LE", "UTF-16BE"):
                jobs.append(("batch", label, entry, texts_for(entry)[-1], entry["malformed"][0], n)); n += 1
        jobs.append(("roundtrip", "native", {"label": "native", "codec": "utf-8", "chars": list("é日")}, "é  :=  '日' ;", (None, "file"), n)); n += 1
        # characters that look like encoding artefacts but are ordinary text: U+FEFF as the first character of the text
        # (behind the real BOM) and inside it, U+FFFD (a *genuine* replacement character), U+FFFE, NUL. The reference for
        # these comes from the in-process formatter (no encoding layer at all).
        long_tail = "a  ;\n{pasfmt off}\n" + "x := " + "y + " * 700 + "z;"          # verbatim last line of ~2.8 KB, no terminator
        crossing = "// " + "\u00e9" * 9000 + "\n" + ("a  :=  '\u0416\u044f' ;  // \u00e9\u00df\n" * 600)   # non-ASCII across every 16 KiB mark
        special = [long_tail, crossing, "x" + crossing, "\ufeffa  :=  b ;\n", "a  :=  '\ufeff' ;  //\ufeff\n", "x  :=  '\ufffd' ;  //\ufffd\n", "\ufffd  :=  1 ;", "x  :=  '\ufffe' ;"]
        for text in special:
            for bom in BOMS:
                for transport in ("file", "stdin"):
                    jobs.append(("special", "UTF-8", table["UTF-8"], text, (bom, transport), n)); n += 1
            if not text.startswith("\ufeff"):
                for label in ("UTF-8", "gb18030"):
                    for transport in ("file", "stdin"):
                        jobs.append(("special", label, table[label], text, (None, transport), n)); n += 1

        # byte strings that are valid but not canonical in a stateful encoding (text grows while bytes shrink), in place
        for raw in (b"\x1b(Ja ;b;\x1b(B\n", b"a;\x1b(Jb;\x1b(B", b"a  ; //\x1b$B$\"\x1b(B \x1b$B$$\x1b(B\n"):
            for transport in ("file", "stdin"):
                jobs.append(("raw", "ISO-2022-JP", table["ISO-2022-JP"], raw, (None, transport), n)); n += 1
        # a byte order mark that arrives in pieces on standard input (one byte, two bytes, then the rest)
        for text in ("BEGIN  a ; END .", "x  :=  '\u00e9' ;"):
            for bom in BOMS:
                for first in (1, 2):
                    for label in ("UTF-8", "windows-1252", "Shift_JIS"):
                        jobs.append(("split", label, table[label], text, (bom, first), n)); n += 1

        def run_job(job):
            kind, label, entry, payload, extra, k = job
            res = []
            f = os.path.join(sb.dir, f"u{k}.pas")
            args_enc = ["-Cencoding=" + label]
            if kind == "malformed":
                data = payload
                if label in ("UTF-16LE", "UTF-16BE"):
                    bom = b"\xff\xfe" if label == "UTF-16LE" else b"\xfe\xff"
                    if extra.startswith("nobom:"):
                        bom, extra = b"", extra[6:]
                    data = bom + "a ;".encode("utf-16-le" if label == "UTF-16LE" else "utf-16-be") + bytes.fromhex(extra)
                open(f, "wb").write(data)
                os.utime(f, (OLD, OLD))
                rc, out, err = cli.run(args_enc + [f], hermetic_cfg=sb.empty_cfg)
                after = open(f, "rb").read()
                case = {"oracle": "c17", "kind": "malformed", "encoding": label, "input_hex": data.hex()}
                if rc == 0:
                    res.append(("malformed-input-accepted", f"exit 0 for input {data!r} malformed in {label}", case))
                elif after != data or int(os.stat(f).st_mtime) != OLD:
                    res.append(("malformed-input-rewritten", f"file changed to {after!r}", case))
                rc2, out2, _ = cli.run(args_enc, stdin=data, hermetic_cfg=sb.empty_cfg)
                if rc2 == 0 or out2:
                    res.append(("malformed-input-accepted", f"stdin: exit {rc2}, stdout {out2[:60]!r}", case))
                os.unlink(f)
                return (True, res)
            if kind == "raw":
                data, (_, transport) = payload, extra
                text = data.decode(entry["codec"])
                formatted = F(text)
                want = enc(formatted, entry)
                case = {"oracle": "c17", "kind": "raw", "encoding": label, "transport": transport, "input_hex": data.hex(), "no_confirm": True}
                if transport == "file":
                    open(f, "wb").write(data)
                    rc, out, err = cli.run(args_enc + [f], hermetic_cfg=sb.empty_cfg)
                    got = open(f, "rb").read()
                    os.unlink(f)
                else:
                    rc, got, err = cli.run(args_enc, stdin=data, hermetic_cfg=sb.empty_cfg)
                if rc != 0:
                    res.append(("valid-input-rejected", f"exit {rc}: {err[:200]!r}", case))
                elif got != want:
                    res.append(("bytes-differ-from-bom-plus-encode-format-decode", f"{transport}: got {got[:80]!r}, want {want[:80]!r}", case))
                return (True, res)
            if kind == "split":
                import subprocess, time
                text, (bom, first) = payload, extra
                bom_bytes, codec = BOMS[bom]
                data = bom_bytes + text.encode(codec)
                want = bom_bytes + F(text).encode(codec)
                p = subprocess.Popen([cli.CLI, "--config-file", sb.empty_cfg] + args_enc, stdin=subprocess.PIPE, stdout=subprocess.PIPE, stderr=subprocess.PIPE)
                p.stdin.write(data[:first]); p.stdin.flush()
                time.sleep(0.15)
                p.stdin.write(data[first:]); p.stdin.close()
                got = p.stdout.read(); err = p.stderr.read(); rc = p.wait()
                case = {"oracle": "c17", "kind": "split", "encoding": label, "bom": bom, "first_fragment": first, "text": text, "no_confirm": True}
                if rc != 0:
                    res.append(("valid-input-rejected", f"BOM delivered in pieces ({first} byte(s) first): exit {rc}: {err[:160]!r}", case))
                elif got != want:
                    res.append(("bytes-differ-from-bom-plus-encode-format-decode", f"BOM delivered in pieces: got {got[:60]!r}, want {want[:60]!r}", case))
                return (True, res)
            if kind == "batch":
                text = payload
                formatted = F(text)
                bad = b"a ; //" + bytes.fromhex(extra) + b"\n"
                # (a UTF-16 file cut in the middle of a code unit is rejected whatever the configured encoding)
                bad16 = b"\xff\xfe" + "a ;".encode("utf-16-le") + b"\x3d"
                good, want = enc(text, entry), enc(formatted, entry)
                d = os.path.join(sb.dir, f"b{k}")
                os.makedirs(d)
                # (enough files for the pool to hand several of them to one leaf job, which shares one read buffer)
                names = {}
                for i in range(16):
                    names[f"f{2 * i:02d}_bad.pas"] = bad if i % 2 == 0 else bad16
                    names[f"f{2 * i + 1:02d}_good.pas"] = good
                for nm, c in names.items():
                    open(os.path.join(d, nm), "wb").write(c)
                rc, out, err = cli.run(args_enc + [os.path.join(d, nm) for nm in names], hermetic_cfg=sb.empty_cfg, env={"RAYON_NUM_THREADS": "1"})
                case = {"oracle": "c17", "kind": "batch", "encoding": label, "text": text, "input_hex": good.hex(), "bad_hex": bad.hex(), "no_confirm": True}
                if rc == 0:
                    res.append(("malformed-input-accepted", f"exit 0 for a batch with two malformed files ({label})", case))
                for nm, c in names.items():
                    got = open(os.path.join(d, nm), "rb").read()
                    exp = want if "good" in nm else c
                    if got != exp:
                        res.append(("batch-file-differs-from-its-stand-alone-result", f"{nm} ({label}): got {got[:80]!r}, want {exp[:80]!r}", case))
                        break
                import shutil
                shutil.rmtree(d, ignore_errors=True)
                return (True, res)
            text = payload
            bom, transport = extra
            if kind == "special":
                import subprocess
                from common import MC
                cfgj = json.dumps({"wrap": 120, "begin": "Auto", "fms": True, "tabs": False, "tw": 2, "ci": 2, "le": "Lf"})
                formatted = subprocess.run([MC, "fmt", cfgj], input=text.encode("utf-8"), stdout=subprocess.PIPE).stdout.decode("utf-8")
            else:
                formatted = F(text)
            if formatted is None:
                return (False, [("machinery", "utf-8 reference run failed", {})])
            if bom:
                bom_bytes, codec = BOMS[bom]
                data = bom_bytes + text.encode(codec)
                want = bom_bytes + formatted.encode(codec)
            else:
                data = enc(text, entry)
                want = enc(formatted, entry)
            case = {"oracle": "c17", "kind": kind, "encoding": label, "bom": bom, "transport": transport, "text": text, "input_hex": data.hex()}
            if transport == "file":
                open(f, "wb").write(data)
                rc, out, err = cli.run(args_enc + [f], hermetic_cfg=sb.empty_cfg)
                got = open(f, "rb").read()
                os.unlink(f)
            else:
                rc, got, err = cli.run(args_enc, stdin=data, hermetic_cfg=sb.empty_cfg)
            if rc != 0:
                res.append(("valid-input-rejected", f"exit {rc}: {err[:200]!r}", case))
            elif got != want:
                res.append(("bytes-differ-from-bom-plus-encode-format-decode", f"got {got[:80]!r}, want {want[:80]!r}", case))
            return (data != want, res)

        with concurrent.futures.ThreadPoolExecutor(16) as ex:
            for job, (nontrivial, res) in zip(jobs, ex.map(run_job, jobs)):
                fam.case(nontrivial=nontrivial)
                fam.transitions += 1
                for sig, detail, case in res:
                    if sig == "machinery":
                        from common import Machinery
                        raise Machinery(detail)
                    fam.fail("C17", sig, detail, case)
        fam.states = len(jobs)
        fam.count("c17.encodings", len(table))
        fam.samples = [{"encoding": j[1], "kind": j[0], "payload": j[3] if isinstance(j[3], str) else j[3].hex(), "bom/transport": j[4]} for j in jobs[5:8]]
    return [fam]


def replay(case):
    import json as _json
    table = _json.load(open(os.path.join(ROOT, "corpus", "encodings.json")))
    label = case["encoding"]
    data = bytes.fromhex(case["input_hex"])
    args_enc = ["-Cencoding=" + label] if label != "native" else []
    with cli.Sandbox("c17-replay") as sb:
        if case["kind"] in ("batch", "raw", "split"):
            print("REPLAY: batch cases are re-run by the check itself")
            return 2
        if case["kind"] == "malformed":
            rc, out, err = cli.run(args_enc, stdin=data, hermetic_cfg=sb.empty_cfg)
            if rc == 0 or out:
                print(f"REPLAY: C17 malformed input accepted (exit {rc})")
                return 1
            print("REPLAY: no violation")
            return 0
        text = case["text"]
        if case.get("kind") == "special":
            import subprocess
            from common import MC
            cfgj = json.dumps({"wrap": 120, "begin": "Auto", "fms": True, "tabs": False, "tw": 2, "ci": 2, "le": "Lf"})
            formatted = subprocess.run([MC, "fmt", cfgj], input=text.encode("utf-8"), stdout=subprocess.PIPE).stdout.decode("utf-8")
        else:
            rc, out, err = cli.run([], stdin=text.encode("utf-8"), hermetic_cfg=sb.empty_cfg)
            formatted = out.decode("utf-8")
        if case.get("bom"):
            b, codec = BOMS[case["bom"]]
            want = b + formatted.encode(codec)
        else:
            entry = table.get(label, {"label": label, "codec": "utf-8"})
            want = enc(formatted, entry)
        rc, got, err = cli.run(args_enc, stdin=data, hermetic_cfg=sb.empty_cfg)
        if rc != 0 or got != want:
            print(f"REPLAY: C17 bytes differ (exit {rc}): got {got[:80]!r} want {want[:80]!r}")
            return 1
    print("REPLAY: no violation")
    return 0
