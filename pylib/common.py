"""Shared driver code: build, run, classify against known findings, write evidence."""
import os, sys, json, time, hashlib, subprocess, fcntl

ROOT = os.path.dirname(os.path.dirname(os.path.abspath(__file__)))
WORK = os.path.join(ROOT, "work")
TARGET = os.path.join(ROOT, "target")
MC = os.path.join(TARGET, "release", "pasfmt-mc")
CLI = os.path.join(TARGET, "cli", "release", "pasfmt")
REPO = os.environ.get("VERIF_REPO", "/repo")
ENV = dict(os.environ, CARGO_NET_OFFLINE="true")


class Machinery(Exception):
    pass


def log(*a):
    print(*a, file=sys.stderr, flush=True)


def build(need_cli=True):
    """(Re)build the explorer (hooks on) and the shipped CLI (hooks off) from /repo's working tree."""
    os.makedirs(WORK, exist_ok=True)
    with open(os.path.join(WORK, "build.lock"), "w") as lock:
        fcntl.flock(lock, fcntl.LOCK_EX)
        t0 = time.time()
        r = subprocess.run(
            ["cargo", "build", "--release", "--offline", "--target-dir", TARGET],
            cwd=os.path.join(ROOT, "harness"), env=ENV,
            stdout=subprocess.PIPE, stderr=subprocess.STDOUT, text=True)
        if r.returncode != 0:
            log(r.stdout[-4000:])
            raise Machinery("building the explorer (hooks on) failed")
        if need_cli:
            r = subprocess.run(
                ["cargo", "build", "--release", "--offline", "-p", "pasfmt",
                 "--target-dir", os.path.join(TARGET, "cli")],
                cwd=REPO, env=ENV, stdout=subprocess.PIPE, stderr=subprocess.STDOUT, text=True)
            if r.returncode != 0:
                log(r.stdout[-4000:])
                raise Machinery("building the pasfmt binary (hooks off) failed")
        log(f"[build] ok in {time.time() - t0:.1f}s")


def load_known():
    p = os.path.join(ROOT, "known_findings.json")
    if not os.path.exists(p):
        return []
    return json.load(open(p)).get("findings", [])


def empty_stats():
    return {"evaluations": 0, "nontrivial": 0, "formats": 0, "counters": {}, "violation_count": 0,
            "by_signature": {}, "violations": [], "undecided_count": 0, "undecided": []}


class PyFamily:
    """Accumulates results of a Python-side explorer in the same shape the Rust explorer reports."""

    def __init__(self, name, transitions_per_case=1):
        self.name = name
        self.stats = empty_stats()
        self.t0 = time.time()
        self.len = 0
        self.transitions = 0
        self.states = 0
        self.samples = []
        self.tpc = transitions_per_case
        self.complete = True

    def case(self, nontrivial=False):
        self.stats["evaluations"] += 1
        self.len += 1
        if nontrivial:
            self.stats["nontrivial"] += 1

    def count(self, label, n=1):
        self.stats["counters"][label] = self.stats["counters"].get(label, 0) + n

    def fail(self, prop, signature, detail, case):
        s = self.stats
        s["violation_count"] += 1
        key = f"{prop}|{signature}"
        s["by_signature"][key] = s["by_signature"].get(key, 0) + 1
        if sum(1 for v in s["violations"] if v["signature"] == signature) < 12:
            case = dict(case)
            case["engine"] = "python"
            s["violations"].append({"property": prop, "signature": signature, "family": self.name,
                                    "idx": s["evaluations"], "case": case, "detail": detail})

    def result(self):
        return {"name": self.name, "len": self.len, "complete": self.complete,
                "wall_s": time.time() - self.t0, "transitions_per_case": self.tpc,
                "transitions": self.transitions, "states": self.states,
                "stats": self.stats, "samples": self.samples}


def run_rust(pid, tier):
    out = os.path.join(WORK, f"{pid}.{tier}.{os.getpid()}.json")
    env = dict(os.environ)
    r = subprocess.run([MC, "run", pid, tier, out], env=env)
    if r.returncode != 0 or not os.path.exists(out):
        raise Machinery(f"explorer exited with {r.returncode}")
    res = json.load(open(out))
    os.unlink(out)
    return res


def confirm_rust(violation):
    """Re-execute a violation candidate twice in fresh processes; both must reproduce."""
    path = os.path.join(WORK, f"cand.{os.getpid()}.json")
    json.dump({"case": violation["case"]}, open(path, "w"))
    codes = []
    for _ in range(2):
        try:
            r = subprocess.run([MC, "replay", path], stdout=subprocess.PIPE, stderr=subprocess.PIPE,
                               timeout=60)
            codes.append(r.returncode)
        except subprocess.TimeoutExpired:
            codes.append(124)
    os.unlink(path)
    return codes


def run_check(pid, tier, spec):
    t0 = time.time()
    seed = int(os.environ.get("VERIF_SEED", "0") or 0)
    build(need_cli=spec.get("cli", False))
    families = []
    samples = []
    if spec.get("rust", True):
        res = run_rust(pid, tier)
        families += res["families"]
        samples += res["samples"]
    for fn in spec.get("python", []):
        for fam in fn(tier, seed):
            r = fam.result()
            samples += [{"family": r["name"], "case": s} for s in r.pop("samples")]
            families.append(r)

    known = [k for k in load_known() if k["property"] == pid and k.get("status") == "known"]
    new_violations = []
    known_hits = {}
    undecided = []
    incomplete = []
    for f in families:
        st = f["stats"]
        if not f.get("complete", True):
            incomplete.append(f["name"])
        for v in st["violations"]:
            k = next((k for k in known if k["signature"] == v["signature"]), None)
            if k is not None:
                known_hits.setdefault(k["signature"], {"k": k, "n": 0, "example": v})
            else:
                new_violations.append(v)
        for key, n in st["by_signature"].items():
            if n == 0:
                continue
            prop, sig = key.split("|", 1)
            if sig in known_hits:
                known_hits[sig]["n"] += n
        undecided += st["undecided"]
    crash_prop = spec.get("crashes_are_violations", False)
    if crash_prop:
        for u in undecided:
            new_violations.append({"property": pid, "signature": f"{u['kind']}:{u['site']}",
                                   "family": u["family"], "idx": u["idx"],
                                   "case": dict(u["case"], oracle="c04"), "detail": f"{u['kind']} at {u['site']}"})

    # confirm candidates (fresh process, twice); a candidate that does not reproduce is a
    # machinery failure, not a violation
    reported = []
    flaky = []
    seen_sig = {}
    for v in new_violations:
        n = seen_sig.get(v["signature"], 0)
        seen_sig[v["signature"]] = n + 1
        if n >= 3:
            continue  # at most 3 replays per signature
        if v["case"].get("engine") == "python" or v["case"].get("no_confirm"):
            reported.append(v)
            continue
        codes = confirm_rust(v)
        if all(c in (1, 101, 124, 134, 139, -6, -11) for c in codes):
            reported.append(v)
        else:
            flaky.append((v, codes))

    os.makedirs(os.path.join(ROOT, "replays", pid), exist_ok=True)
    exit_code = 0
    for sig, h in known_hits.items():
        print(f"KNOWN-FINDING: property={pid} {h['k']['what']} [{h['n']} case(s) in this run; signature {sig}]")
    for v in reported:
        h = hashlib.sha1(json.dumps(v["case"], sort_keys=True).encode()).hexdigest()[:12]
        path = os.path.join(ROOT, "replays", pid, f"{h}.json")
        json.dump({"property": pid, "signature": v["signature"], "detail": v["detail"],
                   "family": v["family"], "engine": v["case"].get("engine", "rust"), "case": v["case"]},
                  open(path, "w"), indent=1)
        print(f"VIOLATION property={pid} replay={path}")
        log(f"  signature: {v['signature']}\n  detail: {v['detail'][:600]}")
        exit_code = 1
    if undecided and not crash_prop:
        log(f"[{pid}] {len(undecided)} case(s) could not be decided because the subject crashed or hung "
            f"(that is property C04's business): e.g. {json.dumps(undecided[0])[:300]}")

    total = {"evaluations": 0, "nontrivial": 0, "formats": 0, "violations": 0, "undecided": 0}
    transitions = 0
    counters = {}
    fam_summary = []
    for f in families:
        st = f["stats"]
        total["evaluations"] += st["evaluations"]
        total["nontrivial"] += st["nontrivial"]
        total["formats"] += st["formats"]
        total["violations"] += st["violation_count"]
        total["undecided"] += st["undecided_count"]
        transitions += (f.get("transitions") or st["counters"].get("c18.scheduling-points")
                        or st["evaluations"] * f.get("transitions_per_case", 1))
        for k, n in st["counters"].items():
            counters[k] = counters.get(k, 0) + n
        fam_summary.append({"family": f["name"], "cases": f["len"], "evaluated": st["evaluations"],
                            "nontrivial": st["nontrivial"], "violations": st["violation_count"],
                            "complete": f.get("complete", True), "wall_s": round(f["wall_s"], 2)})
    exhaustive = not incomplete and all(fs["evaluated"] >= fs["cases"] for fs in fam_summary)
    states = sum(f.get("states") or f["stats"]["evaluations"] for f in families)
    evidence = {
        "property_id": pid,
        "tier": tier,
        "seed": seed,
        "level": spec["level"],
        "coverage": {
            "evaluations": total["evaluations"],
            "distinct_nontrivial": total["nontrivial"],
            "rule": spec["rule"],
            "samples": samples[:8],
            "states": states,
            "transitions": transitions,
            "traces_validated_against_impl": total["evaluations"],
            "exhaustive": exhaustive,
            "bounds": (spec.get("bounds", {}).get(tier, "") + " || families actually run (each enumerated completely): "
                       + "; ".join(f["name"] for f in families)),
            "families": fam_summary,
            "format_calls": total["formats"],
            "outcome_counters": counters,
            "undecided_cases": total["undecided"],
            "caps_hit": incomplete,
            "exhaustive_note": spec.get("exhaustive_note", "every family enumerates its stated finite space completely"),
            "known_findings_observed": {s: h["n"] for s, h in known_hits.items()},
        },
        "assumptions": spec.get("assumptions", []),
        "wall_s": round(time.time() - t0, 2),
        "violations": len(reported),
    }
    os.makedirs(os.path.join(ROOT, "evidence"), exist_ok=True)
    json.dump(evidence, open(os.path.join(ROOT, "evidence", f"{pid}.json"), "w"), indent=1)
    log(f"[{pid}/{tier}] {total['evaluations']} cases, {total['nontrivial']} non-trivial, "
        f"{total['violations']} oracle failures ({len(reported)} reported, {sum(h['n'] for h in known_hits.values())} known), "
        f"{total['undecided']} undecided, {evidence['wall_s']}s")
    if flaky:
        log(f"FLAKY: {len(flaky)} candidate(s) did not reproduce in a fresh process: "
            f"{json.dumps(flaky[0][0])[:400]} codes={flaky[0][1]}")
        return 2 if exit_code == 0 else exit_code
    if incomplete and exit_code == 0:
        log(f"[{pid}] exploration aborted early in: {incomplete}")
        return 2
    return exit_code
