"""C01, CLI form: the shipped binary, stdin -> stdout. The bytes that come out, decoded the way they went in, hold the
same non-blank characters in the same order as the input (compared ignoring ASCII letter case).

Texts: well-formed seed programs plus shapes that stress the output path rather than the formatter: a last line of
several KiB without a line terminator inside a disabled region, one enormous line, all-ASCII text behind a UTF-16 BOM,
text behind a UTF-8 BOM, empty and blank-only inputs."""
import json, subprocess, concurrent.futures
from common import PyFamily, MC
import cli

BOMS = [("none", b"", "utf-8"), ("utf-8-bom", b"\xef\xbb\xbf", "utf-8"), ("utf-16-le-bom", b"\xff\xfe", "utf-16-le"), ("utf-16-be-bom", b"\xfe\xff", "utf-16-be")]


def nonblank(t):
    return "".join(c for c in t if not (ord(c) <= 0x20 or c == "　")).lower()


def texts(tier):
    out = []
    r = subprocess.run([MC, "wfseeds"], stdout=subprocess.PIPE, check=True)
    seeds = [json.loads(l) for l in r.stdout.decode("utf-8").splitlines()]
    step = 30 if tier == "quick" else 4
    out += [s for s in seeds[::step] if len(s) < 20000]
    long_tail = "x := " + "y + " * 2000 + "z;"
    out += [
        "a  ;\n// pasfmt off\n" + long_tail,              # verbatim last line > 8 KiB, no terminator
        "// pasfmt off\n" + "q" * 1500,                   # > 1 KiB
        "a  ;\n{pasfmt off}" + " w" * 40000,              # 80 KB without any line break, verbatim
        "x := " + "1 + " * 6000 + "1;",                   # one long formatted statement
        "begin\n" + "  a;\n" * 5000 + "end.",
        "", " ", "\n\n\n", "a", ";", "'", "{", "//",
        "procedure  P ; begin  if  a  then  b ( 'x' , 1.5e3 , $FF )  ; end ;",
        "é  :=  '日本'  ;  // \U0001F603",
    ]
    return out


def explore(tier, seed):
    fam = PyFamily("c01cli:stdin-to-stdout-on-the-shipped-binary")
    with cli.Sandbox("c01cli") as sb:
        jobs = [(t, b) for t in texts(tier) for b in BOMS]

        def run(job):
            t, (bname, bom, codec) = job
            data = bom + t.encode(codec)
            rc, out, err = cli.run([], stdin=data, hermetic_cfg=sb.empty_cfg, timeout=120)
            case = {"oracle": "c01cli", "bom": bname, "text_head": t[:120], "text_len": len(t), "no_confirm": True}
            if rc != 0:
                return case, ("cli:valid-input-rejected", f"exit {rc}: {err[:200]!r}")
            if not out.startswith(bom):
                return case, ("cli:byte-order-mark-lost", f"output starts with {out[:4]!r}")
            try:
                got = out[len(bom):].decode(codec)
            except UnicodeDecodeError as e:
                return case, ("cli:output-not-decodable", f"output is not valid {codec}: {e}")
            a, b = nonblank(t), nonblank(got)
            if a != b:
                k = next((i for i in range(min(len(a), len(b))) if a[i] != b[i]), min(len(a), len(b)))
                return case, ("cli:nonblank-sequence-differs", f"{len(a)} non-blank characters in, {len(b)} out; first difference at {k}: {a[k:k+20]!r} vs {b[k:k+20]!r}")
            return case, None

        with concurrent.futures.ThreadPoolExecutor(16) as ex:
            for case, res in ex.map(run, jobs):
                fam.case(nontrivial=True)
                fam.transitions += 1
                if res:
                    fam.fail("C01", res[0], res[1], case)
        fam.states = fam.len
        fam.samples = [{"texts": len(jobs) // len(BOMS), "byte-order marks": [b[0] for b in BOMS]}]
    return [fam]
