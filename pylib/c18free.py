"""C18, free-running pass (UNCONTROLLED schedules, labelled as such): the shipped binary with real rayon on batches,
compared with one invocation per file. It complements the controlled exploration (which replaces rayon by the verif
shim) and checks the shim's outcomes against the real pool."""
import os, shutil, itertools, concurrent.futures
from common import PyFamily
import cli

KINDS = {
    "same-length-change": b"a ;b;\n",
    "shrinks": b"a    ;\n\n\n\n\nb   ;\n",
    "grows": b"a;b;c;",
    "formatted": b"a;\n",
    "undecodable": b"a ;\xff\n",
    "missing": None,
    "undecodable-after-non-ascii": "x := '".encode() + "é".encode() * 13 + b"' ;//\xff\n",
    "utf16-bom": "﻿a  ;\n".encode("utf-16-le"),
}
NAMES = ["unit.pas", "Unit.pas", "UNIT.pas", "sub/unit.pas"]


def solo(sb, cache, content):
    if content not in cache:
        rc, out, _ = cli.run([], stdin=content, hermetic_cfg=sb.empty_cfg)
        cache[content] = (rc == 0, out)
    return cache[content]


def run_batch(args):
    part, batches, threads = args
    fam = PyFamily("c18free")
    cache = {}
    with cli.Sandbox(f"c18f-{part}") as sb:
        for kinds in batches:
            for t in threads:
                for mode in ("files", "check"):
                    d = sb.path("b")
                    shutil.rmtree(d, ignore_errors=True)
                    os.makedirs(os.path.join(d, "sub"))
                    paths, expect, failing = [], {}, set()
                    for i, k in enumerate(kinds):
                        name = NAMES[i] if len(kinds) <= len(NAMES) else f"f{i:03d}.pas"
                        p = os.path.join(d, name)
                        paths.append(p)
                        c = KINDS[k]
                        if c is None:
                            failing.add(name)
                            expect[name] = None
                            continue
                        open(p, "wb").write(c)
                        ok, out = solo(sb, cache, c)
                        if not ok:
                            failing.add(name)
                            expect[name] = c
                        elif mode == "files":
                            expect[name] = out
                        else:
                            expect[name] = c
                            if out != c:
                                failing.add(name)
                    rc, out, err = cli.run([f"--mode={mode}"] + paths, hermetic_cfg=sb.empty_cfg, env={"RAYON_NUM_THREADS": str(t)})
                    fam.case(nontrivial=True)
                    fam.transitions += 1
                    case = {"oracle": "c18free", "kinds": list(kinds)[:12], "n": len(kinds), "threads": t, "mode": mode}
                    for name, want in expect.items():
                        p = os.path.join(d, name)
                        got = open(p, "rb").read() if os.path.exists(p) else None
                        if got != want:
                            fam.fail("C18", "free-running:file-differs-from-solo-result", f"{name} ({mode}, {t} threads): {got[:60] if got else got!r} != {want[:60] if want else want!r}", case)
                            break
                    else:
                        if (rc != 0) != bool(failing):
                            fam.fail("C18", "free-running:exit-status", f"exit {rc}, failing files {sorted(failing)}", case)
                        else:
                            text = err.decode("utf-8", "replace")
                            for name in expect:
                                n = sum(1 for line in text.splitlines() if line.startswith("ERROR") and (os.path.join(d, name) + "'") in line)
                                if n != (1 if name in failing else 0):
                                    fam.fail("C18", "free-running:error-reports-differ", f"{name} reported {n} times (failing: {name in failing}); stderr {text[:300]!r}", case)
                                    break
    return fam.result()


def exit_status_counts(fam, tier):
    """the exit status is non-zero iff at least one file failed, for failure counts around the u8 / u16 boundaries"""
    counts = [0, 1, 2, 255, 256, 257, 512] + ([768, 65536] if tier != "quick" else [])
    with cli.Sandbox("c18f-exit") as sb:
        cache = {}
        for k in counts:
            for mode in ("files", "check"):
                d = sb.path("e")
                shutil.rmtree(d, ignore_errors=True)
                os.makedirs(d)
                good = {}
                for i in range(3):
                    pth = os.path.join(d, f"good{i}.pas")
                    c = b"a  ;\n" if mode == "files" else b"a;\n"
                    open(pth, "wb").write(c)
                    good[pth] = solo(sb, cache, c)[1] if mode == "files" else c
                lst = sb.path("list.txt")
                with open(lst, "w") as fh:
                    names = list(good) + [os.path.join(d, f"missing{i}.pas") for i in range(k)]
                    # failing files between the good ones
                    names = names[1:2] + names[3:3 + k // 2] + names[0:1] + names[3 + k // 2:] + names[2:3]
                    fh.write("\n".join(names) + "\n")
                rc, out, err = cli.run([f"--mode={mode}", "--files-from", lst], hermetic_cfg=sb.empty_cfg)
                fam.case(nontrivial=True)
                fam.transitions += 1
                case = {"oracle": "c18free", "failing_files": k, "mode": mode, "no_confirm": True}
                nerr = sum(1 for line in err.decode("utf-8", "replace").splitlines() if line.startswith("ERROR"))
                if (rc != 0) != (k > 0):
                    fam.fail("C18", "free-running:exit-status", f"{k} failing files of {k + 3} ({mode} mode): exit status {rc}", case)
                elif nerr != k:
                    fam.fail("C18", "free-running:error-reports-differ", f"{k} failing files, {nerr} ERROR lines", case)
                else:
                    for pth, want in good.items():
                        if open(pth, "rb").read() != want:
                            fam.fail("C18", "free-running:file-differs-from-solo-result", f"{pth} with {k} failing neighbours", case)
                            break


def stdout_sections(fam, tier):
    """stdout mode on a directory of files of mixed sizes (sections from 5 bytes to > 64 KiB): the output must be the
    stand-alone sections in some order, each exactly once and unbroken. UNCONTROLLED schedules: repeated runs."""
    rounds = 6 if tier == "quick" else 40
    with cli.Sandbox("c18f-stdout") as sb:
        d = sb.path("s")
        os.makedirs(d)
        cache = {}
        sections = {}
        for i in range(96):
            n = [1, 3, 400, 700, 1200, 5000, 2, 900][i % 8]
            c = b"".join(b"x%d   :=   %d ;\n" % (j, i) for j in range(n))
            pth = os.path.join(d, f"f{i:03d}.pas")
            open(pth, "wb").write(c)
            ok, out = solo(sb, cache, c)
            sections[pth] = (pth + ":\n").encode() + out + b"\n"
        for r in range(rounds):
            for t in (16, 3):
                rc, out, err = cli.run(["--mode=stdout", d], hermetic_cfg=sb.empty_cfg, env={"RAYON_NUM_THREADS": str(t)})
                fam.case(nontrivial=True)
                fam.transitions += 1
                case = {"oracle": "c18free", "stdout_mode_round": r, "threads": t, "no_confirm": True}
                rest = out
                left = dict(sections)
                bad = None
                while rest:
                    nl = rest.find(b":\n")
                    key = rest[:nl].decode("utf-8", "replace") if nl >= 0 else None
                    sec = left.pop(key, None)
                    if sec is None or not rest.startswith(sec):
                        bad = f"at byte {len(out) - len(rest)} the output does not continue with a whole stand-alone section: {rest[:80]!r}"
                        break
                    rest = rest[len(sec):]
                if bad is None and left:
                    bad = f"{len(left)} section(s) missing"
                if bad or rc != 0:
                    fam.fail("C18", "free-running:stdout-sections", f"round {r}, {t} threads, exit {rc}: {bad}", case)
                    return


def unopenable_files(fam, tier):
    """a file that exists but cannot be opened (mode 000, the formatter running as an unprivileged user): it must be
    reported, make the exit status non-zero and leave the others to their stand-alone results"""
    import subprocess, stat
    setpriv = shutil.which("setpriv")
    if not setpriv or os.geteuid() != 0:
        fam.count("c18free.unopenable-skipped(no setpriv or not root)")
        return
    drop = [setpriv, "--reuid=65534", "--regid=65534", "--clear-groups"]
    with cli.Sandbox("c18f-perm") as sb:
        os.chmod(sb.dir, 0o755)
        # the unprivileged user must be able to run the binary and to reach the sandbox (not so when /verif lives
        # under a directory that only root may enter): probe with a formatted file that must pass --mode=check
        pd = sb.path("probe")
        os.makedirs(pd)
        os.chmod(pd, 0o777)
        pf = os.path.join(pd, "ok.pas")
        open(pf, "wb").write(b"a;\n")
        os.chmod(pf, 0o666)
        probe = subprocess.run(drop + [cli.CLI, "--config-file", sb.empty_cfg, "--mode=check", pf], stdout=subprocess.PIPE, stderr=subprocess.PIPE)
        if probe.returncode != 0:
            fam.count("c18free.unopenable-skipped(the unprivileged user cannot run the binary or reach the sandbox)")
            return
        cache = {}
        for mode in ("files", "check"):
            for threads in (1, 2, 4):
                d = sb.path("p")
                shutil.rmtree(d, ignore_errors=True)
                os.makedirs(d)
                os.chmod(d, 0o777)
                content = b"a   ;b  ;\n"
                ok, formatted = solo(sb, cache, content)
                paths = []
                for i in range(5):
                    pth = os.path.join(d, f"f{i}.pas")
                    open(pth, "wb").write(content)
                    os.chmod(pth, 0o000 if i == 2 else 0o666)
                    paths.append(pth)
                r = subprocess.run(drop + [cli.CLI, "--config-file", sb.empty_cfg, f"--mode={mode}"] + paths,
                                   stdout=subprocess.PIPE, stderr=subprocess.PIPE, env=dict(os.environ, RAYON_NUM_THREADS=str(threads)))
                fam.case(nontrivial=True)
                fam.transitions += 1
                case = {"oracle": "c18free", "unopenable": "f2.pas", "mode": mode, "threads": threads, "no_confirm": True}
                text = r.stderr.decode("utf-8", "replace")
                if r.returncode == 0:
                    fam.fail("C18", "free-running:exit-status", f"exit 0 although f2.pas cannot be opened ({mode} mode, {threads} threads); stderr {text[:200]!r}", case)
                    continue
                if not any(l.startswith("ERROR") and "f2.pas" in l for l in text.splitlines()):
                    fam.fail("C18", "free-running:error-reports-differ", f"the unopenable file is not reported; stderr {text[:300]!r}", case)
                    continue
                for i, pth in enumerate(paths):
                    os.chmod(pth, 0o666)
                    got = open(pth, "rb").read()
                    want = content if (i == 2 or mode == "check") else formatted
                    if got != want:
                        fam.fail("C18", "free-running:file-differs-from-solo-result", f"f{i}.pas next to an unopenable file: {got[:40]!r} != {want[:40]!r}", case)
                        break


def descriptor_limit(fam, tier):
    """a batch larger than the limit on open files (RLIMIT_NOFILE lowered to 64): resource use must be bounded by the
    number of workers, not by the size of the batch"""
    import subprocess, resource
    with cli.Sandbox("c18f-nofile") as sb:
        cache = {}
        for mode in ("files", "check"):
            for threads in (1, 4):
                d = sb.path("n")
                shutil.rmtree(d, ignore_errors=True)
                os.makedirs(d)
                content = b"a   ;b  ;\n" if mode == "files" else b"a;\n"
                ok, formatted = solo(sb, cache, content)
                n = 150 if tier == "quick" else 600
                for i in range(n):
                    open(os.path.join(d, f"f{i:04d}.pas"), "wb").write(content)
                def limit():
                    resource.setrlimit(resource.RLIMIT_NOFILE, (64, 64))
                r = subprocess.run([cli.CLI, "--config-file", sb.empty_cfg, f"--mode={mode}", d], stdout=subprocess.PIPE, stderr=subprocess.PIPE,
                                   env=dict(os.environ, RAYON_NUM_THREADS=str(threads)), preexec_fn=limit)
                fam.case(nontrivial=True)
                fam.transitions += 1
                case = {"oracle": "c18free", "open_file_limit": 64, "files": n, "mode": mode, "threads": threads, "no_confirm": True}
                if r.returncode != 0:
                    fam.fail("C18", "free-running:exit-status", f"exit {r.returncode} for {n} good files under a limit of 64 open files; stderr {r.stderr[:200]!r}", case)
                    continue
                bad = [i for i in range(n) if open(os.path.join(d, f"f{i:04d}.pas"), "rb").read() != (formatted if mode == "files" else content)]
                if bad:
                    fam.fail("C18", "free-running:file-differs-from-solo-result", f"{len(bad)} of {n} files differ from their stand-alone result under a limit of 64 open files", case)


def explore(tier, seed):
    kinds = list(KINDS)
    batches = []
    maxlen = 2 if tier == "quick" else 3
    for n in range(1, maxlen + 1):
        batches += list(itertools.product(kinds, repeat=n))
    # large batches: every 4th file undecodable, every 7th missing
    for size in ([40] if tier == "quick" else [40, 200]):
        batches.append(tuple("undecodable" if i % 4 == 1 else ("missing" if i % 7 == 3 else kinds[i % 4]) for i in range(size)))
    threads = [1, 4] if tier == "quick" else [1, 2, 4, 16]
    nparts = 16
    parts = [(i, batches[i::nparts], threads) for i in range(nparts)]
    fam = PyFamily("c18free:batches-on-the-shipped-binary(uncontrolled-schedules)")
    with concurrent.futures.ProcessPoolExecutor(nparts) as ex:
        for r in ex.map(run_batch, parts):
            st = r["stats"]
            fam.stats["evaluations"] += st["evaluations"]
            fam.stats["nontrivial"] += st["nontrivial"]
            fam.len += r["len"]
            fam.transitions += r["transitions"]
            fam.stats["violation_count"] += st["violation_count"]
            for k, n in st["by_signature"].items():
                fam.stats["by_signature"][k] = fam.stats["by_signature"].get(k, 0) + n
            fam.stats["violations"] += st["violations"]
    exit_status_counts(fam, tier)
    stdout_sections(fam, tier)
    unopenable_files(fam, tier)
    descriptor_limit(fam, tier)
    fam.states = fam.len
    fam.samples = [{"kinds": list(batches[3]), "threads": threads}]
    return [fam]
