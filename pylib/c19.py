"""C19 — configuration precedence and strictness on the real binary, against a reference model.

model: effective = defaults (+) nearest pasfmt.toml walking up from the working directory (or the file given with
--config-file) (+) -C KEY=VALUE; the expected output for an effective configuration is rendered in-process by the
explorer binary (`pasfmt-mc fmt <cfg>`: FormattingConfig through toml, no `config` crate layering involved).
"""
import os, json, itertools, subprocess, concurrent.futures
from common import PyFamily, MC
import cli

OLD = 1_000_000_000
PROBE = ("procedure P;\nbegin\n  if aaaa then begin bbbbbbbbbbbb(cccccccccc, dddddddddd, eeeeeeeeee, ffffffffff); end;\n"
         "  x := '''\n        m\n        ''';\nend;\n")

DEFAULTS = {"wrap_column": 120, "begin_style": "auto", "format_multiline_strings": True, "use_tabs": False,
            "tab_width": 2, "continuation_indents": 2, "line_ending": "lf"}
# distinct non-default values per option, one per source
VALUES = {
    "wrap_column": [30, 60, 45, 80],
    "begin_style": ["always_wrap", "auto", "always_wrap", "auto"],
    "format_multiline_strings": [False, True, False, True],
    "use_tabs": [True, False, True, False],
    "tab_width": [4, 8, 3, 1],
    "continuation_indents": [1, 3, 0, 4],
    "line_ending": ["crlf", "lf", "crlf", "lf"],
}
INVALID = [
    ("wrap_column", "-1"), ("wrap_column", "abc"), ("wrap_column", "4294967296"),
    ("tab_width", "256"), ("tab_width", "-1"), ("tab_width", "x"),
    ("continuation_indents", "256"), ("use_tabs", "maybe"), ("begin_style", "sometimes"),
    ("line_ending", "cr"), ("encoding", "klingon"), ("format_multiline_strings", "perhaps"),
    ("no_such_option", "1"), ("wrapcolumn", "30"),
    ("wrap_column", "[30]"), ("tab_width", "0x10"), ("begin_style", "1"), ("line_ending", "true"),
    # keys are case-sensitive, in every source
    ("WRAP_COLUMN", "30"), ("Use_Tabs", "true"), ("Tab_width", "4"), ("wrap-column", "30"),
]
# scalar values of another scalar type: the `config` crate coerces these instead of rejecting them
# (known finding; kept in the exploration with their own signature). Written as raw TOML.
# integer-looking values for options that are not integers, and a negative zero: only the -C route can express them
# without colliding with the coercion finding of the file route
INVALID_C_ONLY = [
    ("use_tabs", "2"), ("use_tabs", "-1"), ("format_multiline_strings", "10"), ("format_multiline_strings", "-7"),
    ("encoding", "0866"), ("encoding", "+866"), ("tab_width", "-0"), ("begin_style", "0"), ("line_ending", "1"),
]
COERCED = [
    ("format_multiline_strings", "2"), ("use_tabs", "1"), ("use_tabs", '"yes"'), ("use_tabs", "0.0"),
    ("wrap_column", "30.5"), ("tab_width", "true"),
]


def toml_value(v):
    if isinstance(v, bool):
        return "true" if v else "false"
    if isinstance(v, int):
        return str(v)
    return '"%s"' % v


def cli_value(v):
    if isinstance(v, bool):
        return "true" if v else "false"
    return str(v)


def reference(eff, cache):
    key = json.dumps(eff, sort_keys=True)
    if key not in cache:
        cfg = {"wrap": eff["wrap_column"], "begin": "AlwaysWrap" if eff["begin_style"] == "always_wrap" else "Auto",
               "fms": eff["format_multiline_strings"], "tabs": eff["use_tabs"], "tw": eff["tab_width"],
               "ci": eff["continuation_indents"], "le": "Crlf" if eff["line_ending"] == "crlf" else "Lf"}
        r = subprocess.run([MC, "fmt", json.dumps(cfg)], input=PROBE.encode(), stdout=subprocess.PIPE)
        cache[key] = r.stdout
    return cache[key]


def explore(tier, seed):
    fam = PyFamily("c19:config-sources-x-depths-x-options")
    with cli.Sandbox("c19") as sb:
        root = sb.path("root")
        cache = {}
        jobs = []
        depths = [0, 1, 2, 4] if tier == "quick" else [0, 1, 2, 3, 4]
        opts = list(VALUES)
        # option sets: every single option, and every pair (quick: pairs with the next option only)
        optsets = [[o] for o in opts]
        if tier == "thorough":
            optsets += [list(p) for p in itertools.combinations(opts, 2)]
        else:
            optsets += [[opts[i], opts[(i + 1) % len(opts)]] for i in range(len(opts))]
        n = 0
        for depth in depths:
            for oset in optsets:
                # sources: file at the cwd level (0), at a middle ancestor, at the top ancestor, --config-file, -C
                levels = sorted(set([0, depth // 2, depth]))
                sources = [("file", l) for l in levels] + [("config-file", None), ("C", None)]
                # every assignment of {absent, present} to the sources (each present source sets all options of
                # the set, with values distinct per source)
                for mask in range(1 << len(sources)):
                    if tier == "quick" and len(oset) == 2 and bin(mask).count("1") not in (2, 3):
                        continue
                    jobs.append((n, depth, oset, [s for k, s in enumerate(sources) if mask >> k & 1])); n += 1
                # a split: first option only in the file source, second only on the command line
                if len(oset) == 2:
                    jobs.append((n, depth, oset, [("file", 0, [oset[0]]), ("C", None, [oset[1]])])); n += 1
                    # sources that shadow one another set different keys: nothing of a shadowed source may
                    # leak (a discovered file under --config-file, a farther file under the nearest one)
                    for lvl in levels:
                        jobs.append((n, depth, oset, [("file", lvl, [oset[0]]), ("config-file", None, [oset[1]])])); n += 1
                        jobs.append((n, depth, oset, [("file", lvl, [oset[0]]), ("config-file", None, [oset[1]]), ("C", None, [oset[1]])])); n += 1
                    if depth > 0:
                        jobs.append((n, depth, oset, [("file", 0, [oset[0]]), ("file", depth, [oset[1]])])); n += 1
                        jobs.append((n, depth, oset, [("file", depth // 2, [oset[1]]), ("file", depth, oset)])); n += 1

        def run_job(job):
            k, depth, oset, present = job
            base = os.path.join(root, f"j{k}")
            cwd = os.path.join(base, *[f"d{i}" for i in range(depth)]) if depth else base
            os.makedirs(cwd, exist_ok=True)
            # ancestors of cwd inside base, nearest first: level 0 = cwd itself
            def level_dir(l):
                d = cwd
                for _ in range(l):
                    d = os.path.dirname(d)
                return d
            eff = dict(DEFAULTS)
            file_layers = {}
            args = []
            cfgfile = None
            overrides = {}
            for si, src in enumerate(present):
                kind, lvl = src[0], src[1]
                only = src[2] if len(src) > 2 else oset
                vals = {o: VALUES[o][(si + (lvl or 0)) % 4] for o in only}
                if kind == "file":
                    file_layers[lvl] = vals
                elif kind == "config-file":
                    cfgfile = vals
                else:
                    overrides = vals
            for lvl, vals in file_layers.items():
                with open(os.path.join(level_dir(lvl), "pasfmt.toml"), "w") as fh:
                    for o, v in vals.items():
                        fh.write(f"{o} = {toml_value(v)}\n")
            if cfgfile is not None:
                # (the name of an explicit configuration file is free: it need not end in .toml)
                p = os.path.join(base, ["explicit.toml", "settings.conf", "pasfmtrc", ".pasfmt", "pasfmt.toml.bak"][k % 5])
                with open(p, "w") as fh:
                    for o, v in cfgfile.items():
                        fh.write(f"{o} = {toml_value(v)}\n")
                args += ["--config-file", p]
                eff.update(cfgfile)
            elif file_layers:
                eff.update(file_layers[min(file_layers)])  # the nearest one only
            for o, v in overrides.items():
                args += [f"-C{o}={cli_value(v)}"]
            eff.update(overrides)
            rc, out, err = cli.run(args, stdin=PROBE.encode(), cwd=cwd)
            want = reference(eff, cache)
            files = {}
            for lvl, vals in file_layers.items():
                rel = os.path.relpath(os.path.join(level_dir(lvl), "pasfmt.toml"), base)
                files[rel] = "".join(f"{o} = {toml_value(v)}\n" for o, v in vals.items())
            if cfgfile is not None:
                files[os.path.basename(p)] = "".join(f"{o} = {toml_value(v)}\n" for o, v in cfgfile.items())
            case = {"oracle": "c19", "depth": depth, "options": oset, "sources": [list(map(str, s[:2])) for s in present], "effective": eff,
                    "args": [a.replace(base, "{BASE}") for a in args], "files": files, "cwd": os.path.relpath(cwd, base)}
            res = []
            if rc != 0:
                res.append(("valid-configuration-rejected", f"exit {rc}: {err[:300]!r}", case))
            elif out != want:
                res.append(("effective-configuration-differs", f"output differs from the rendering of {eff}: got {out[:120]!r} want {want[:120]!r}", case))
            return (eff != DEFAULTS, res)

        with concurrent.futures.ThreadPoolExecutor(16) as ex:
            for job, (nt, res) in zip(jobs, ex.map(run_job, jobs)):
                fam.case(nontrivial=nt)
                fam.transitions += 1
                for sig, detail, case in res:
                    fam.fail("C19", sig, detail, case)
        fam.states = len(jobs)
        fam.samples = [{"depth": j[1], "options": j[2], "sources": [list(map(str, s[:2])) for s in j[3]]} for j in jobs[40:43]]

        # strictness: invalid settings in each source, files mode: the target must stay untouched
        inv = PyFamily("c19:invalid-settings-x-sources")
        k = 0
        for (key, val, coerced) in [(a, b, False) for a, b in INVALID] + [(a, b, True) for a, b in COERCED] + [(a, b, None) for a, b in INVALID_C_ONLY]:
            for source in (("C",) if coerced is None else ("file", "config-file") if coerced else ("file", "config-file", "C")):
                for mode in ("files", "stdin"):
                    if source == "C" and val.startswith("["):
                        continue
                    k += 1
                    base = os.path.join(root, f"i{k}")
                    cwd = os.path.join(base, "sub")
                    os.makedirs(cwd)
                    args = []
                    raw = coerced or val.lstrip("-").isdigit() or val in ("true", "false") or val.startswith("[")
                    tv = val if raw else '"%s"' % val
                    if source == "file":
                        open(os.path.join(base, "pasfmt.toml"), "w").write(f"{key} = {tv}\n")
                    elif source == "config-file":
                        p = os.path.join(base, "x.toml")
                        open(p, "w").write(f"{key} = {tv}\n")
                        args += ["--config-file", p]
                    else:
                        args += [f"-C{key}={val}"]
                    target = os.path.join(cwd, "t.pas")
                    open(target, "w").write("a  ;\n")
                    os.utime(target, (OLD, OLD))
                    # (the verdict must not depend on the verbosity: every second case runs with logging off)
                    quiet = ["--log-level", "OFF"] if k % 2 == 0 else []
                    if mode == "files":
                        rc, out, err = cli.run(quiet + args + [target], cwd=cwd)
                    else:
                        rc, out, err = cli.run(quiet + args, stdin=b"a  ;\n", cwd=cwd)
                    inv.case(nontrivial=True)
                    inv.transitions += 1
                    case = {"oracle": "c19", "invalid": [key, val], "source": source, "mode": mode, "log_level_off": bool(quiet), "no_confirm": True}
                    if rc == 0:
                        sig = "invalid-setting-accepted:scalar-of-another-type-coerced-by-config-crate" if coerced else "invalid-setting-accepted"
                        inv.fail("C19", sig, f"{key}={val} via {source}: exit 0, stdout {out[:60]!r}", case)
                    elif open(target).read() != "a  ;\n" or int(os.stat(target).st_mtime) != OLD:
                        inv.fail("C19", "file-touched-despite-configuration-error", f"{key}={val} via {source}", case)
                    elif out:
                        inv.fail("C19", "output-despite-configuration-error", f"{key}={val} via {source}: stdout {out[:60]!r}", case)
        # a working directory reached through a symbolic link, with the shell's logical $PWD exported: discovery walks the
        # real ancestors of the working directory
        for depth_below in (0, 1, 2):
            k += 1
            base = os.path.join(root, f"s{k}")
            real = os.path.join(base, "real", *[f"d{i}" for i in range(depth_below)])
            os.makedirs(real)
            os.makedirs(os.path.join(base, "other"))
            open(os.path.join(base, "real", "pasfmt.toml"), "w").write("wrap_column = 30\nuse_tabs = true\n")
            open(os.path.join(base, "other", "pasfmt.toml"), "w").write("wrap_column = 60\nline_ending = \"crlf\"\n")
            link = os.path.join(base, "other", "link")
            os.symlink(real, link)
            eff = dict(DEFAULTS, wrap_column=30, use_tabs=True)
            want = reference(eff, cache)
            for pwd in (link, None):
                env = {"PWD": pwd} if pwd else None
                rc, out, err = cli.run([], stdin=PROBE.encode(), cwd=link, env=env)
                inv.case(nontrivial=True)
                inv.transitions += 1
                case = {"oracle": "c19", "symlinked_cwd": True, "depth_below_config": depth_below, "PWD_exported": bool(pwd), "no_confirm": True}
                if rc != 0:
                    inv.fail("C19", "valid-configuration-rejected", f"exit {rc}: {err[:200]!r}", case)
                elif out != want:
                    inv.fail("C19", "effective-configuration-differs", f"working directory reached through a symbolic link (PWD exported: {bool(pwd)}): the pasfmt.toml above the real directory is not the one in effect", case)
        # the nearest pasfmt.toml is itself a symbolic link to a regular file: it is the nearest file all the same
        for depth_below in (0, 1):
            for bad in (False, True):
                k += 1
                base = os.path.join(root, f"l{k}")
                near = os.path.join(base, "outer", "near")
                cwd = os.path.join(near, *[f"d{i}" for i in range(depth_below)])
                os.makedirs(cwd)
                os.makedirs(os.path.join(base, "store"))
                open(os.path.join(base, "outer", "pasfmt.toml"), "w").write("wrap_column = 60\nline_ending = \"crlf\"\n")
                target = os.path.join(base, "store", "shared.toml")
                open(target, "w").write("wrap_column = 30\nuse_tabs = true\n" + ("no_such_key = 1\n" if bad else ""))
                os.symlink(target, os.path.join(near, "pasfmt.toml"))
                want = reference(dict(DEFAULTS, wrap_column=30, use_tabs=True), cache)
                rc, out, err = cli.run([], stdin=PROBE.encode(), cwd=cwd)
                inv.case(nontrivial=True)
                inv.transitions += 1
                case = {"oracle": "c19", "symlinked_config_file": True, "depth_below_config": depth_below, "unknown_key": bad, "no_confirm": True}
                if bad:
                    if rc == 0:
                        inv.fail("C19", "invalid-setting-accepted", "an unknown key in a pasfmt.toml that is a symbolic link: exit 0", case)
                elif rc != 0:
                    inv.fail("C19", "valid-configuration-rejected", f"exit {rc}: {err[:200]!r}", case)
                elif out != want:
                    inv.fail("C19", "effective-configuration-differs", "the nearest pasfmt.toml is a symbolic link to a regular file and is not the one in effect", case)
        # a configuration file that cannot be read as text (not UTF-8) is an error in both file sources, never "no file"
        for source in ("file", "config-file"):
            for raw in (b"# caf\xe9\nwrap_column = 30\n", b"wrap_column = 30\n# \xff\xfe\n", b"\xff\xfew\x00r\x00a\x00p\x00"):
                for mode in ("files", "stdin"):
                    k += 1
                    base = os.path.join(root, f"u{k}")
                    cwd = os.path.join(base, "sub", "deeper")
                    os.makedirs(cwd)
                    args = []
                    if source == "file":
                        open(os.path.join(base, "pasfmt.toml"), "wb").write(raw)
                    else:
                        pth = os.path.join(base, "x.toml")
                        open(pth, "wb").write(raw)
                        args += ["--config-file", pth]
                    target = os.path.join(cwd, "t.pas")
                    open(target, "w").write("a  ;\n")
                    os.utime(target, (OLD, OLD))
                    if mode == "files":
                        rc, out, err = cli.run(args + [target], cwd=cwd)
                    else:
                        rc, out, err = cli.run(args, stdin=b"a  ;\n", cwd=cwd)
                    inv.case(nontrivial=True)
                    inv.transitions += 1
                    case = {"oracle": "c19", "unreadable_config_hex": raw.hex(), "source": source, "mode": mode, "no_confirm": True}
                    if rc == 0:
                        inv.fail("C19", "invalid-setting-accepted", f"a configuration file that is not valid UTF-8 ({source}) is silently ignored: exit 0, stdout {out[:60]!r}", case)
                    elif open(target).read() != "a  ;\n" or int(os.stat(target).st_mtime) != OLD:
                        inv.fail("C19", "file-touched-despite-configuration-error", f"unreadable configuration via {source}", case)
        # --config-file must exist and be a regular file
        for bad in ("missing.toml", "adir"):
            base = os.path.join(root, f"m-{bad}")
            os.makedirs(os.path.join(base, "adir"))
            target = os.path.join(base, "t.pas")
            open(target, "w").write("a  ;\n")
            os.utime(target, (OLD, OLD))
            rc, out, err = cli.run(["--config-file", os.path.join(base, bad), target], cwd=base)
            inv.case(nontrivial=True)
            inv.transitions += 1
            if rc == 0 or open(target).read() != "a  ;\n":
                inv.fail("C19", "bad-config-file-accepted", f"--config-file {bad}: exit {rc}", {"oracle": "c19", "config_file": bad})
        inv.states = inv.len
        inv.samples = [{"invalid": list(INVALID[0]), "source": "file"}]
    return [fam, inv]


def replay(case):
    """re-run one recorded precedence case without the explorer"""
    with cli.Sandbox("c19-replay") as sb:
        base = sb.path("base")
        cwd = os.path.normpath(os.path.join(base, case.get("cwd", ".")))
        os.makedirs(cwd, exist_ok=True)
        if "invalid" in case or "config_file" in case:
            print("REPLAY: strictness cases are replayed by running ./check C19")
            return 2
        for rel, text in case["files"].items():
            p = os.path.join(base, rel)
            os.makedirs(os.path.dirname(p), exist_ok=True)
            open(p, "w").write(text)
        args = [a.replace("{BASE}", base) for a in case["args"]]
        rc, out, err = cli.run(args, stdin=PROBE.encode(), cwd=cwd)
        want = reference(case["effective"], {})
        if rc != 0 or out != want:
            print(f"REPLAY: C19 effective configuration differs (exit {rc})")
            return 1
    print("REPLAY: no violation")
    return 0
