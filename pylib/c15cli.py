"""C15, CLI form: `--cursor a,b,c` prints `CURSOR=` on stderr; the output text must not change; several files drop cursors."""
import os, json, subprocess, concurrent.futures
from common import PyFamily, MC
import cli

TEXTS = [
    "a  :=  b ;", "begin\n  x:=1;end;", "{c}  a;", "x := '''\n  m\n  ''';", "// pasfmt off\na   ;\n// pasfmt on\nb  ;",
    "procedure P;begin if a then begin b(cccccccc,dddddddd,eeeeeeee,ffffffff,gggggggg,hhhhhhhh,iiiiiiii,jjjjjjjj,kkkkkkkkk,lllllllll,mmmmmmmmm);end;end;",
    "é  :=  '日' ;", "", "   ", "asm\n  mov eax,  1\nend;",
]
CFG = {"wrap": 120, "begin": "Auto", "fms": True, "tabs": False, "tw": 2, "ci": 2, "le": "Lf"}


def explore(tier, seed):
    fam = PyFamily("c15cli:--cursor-on-the-shipped-binary")
    with cli.Sandbox("c15") as sb:
        jobs = []
        for t in TEXTS:
            b = t.encode("utf-8")
            bounds = [i for i in range(len(b) + 1) if i == len(b) or (b[i] & 0xC0) != 0x80]
            lists = [[c] for c in bounds] + [[len(b) + 1], [4294967295], bounds[::-1], bounds + [len(b) + 5]]
            if tier == "quick":
                lists = lists[::3] + lists[-3:]
            # equal offsets in a row (an empty selection), equal offsets apart, huge sentinels: the list is positional
            if bounds:
                m = bounds[len(bounds) // 2]
                lists += [[m, m, bounds[-1]], [bounds[0], m, m], [m, bounds[-1], m], [x for c in bounds[:6] for x in (c, c)],
                          [2147483647, 2147483648, 4294967295, 0], [m, 2147483648]]
            for l in lists:
                for transport in ("stdin", "file"):
                    jobs.append((t, l, transport))

        def run(jk):
            k, job = jk
            t, l, transport = job
            arg = ",".join(map(str, l))
            ref = subprocess.run([MC, "cursors", json.dumps(CFG), arg], input=t.encode(), stdout=subprocess.PIPE).stdout.decode().strip()
            plain_rc, plain, _ = cli.run([], stdin=t.encode(), hermetic_cfg=sb.empty_cfg)
            if transport == "stdin":
                rc, out, err = cli.run(["--cursor", arg], stdin=t.encode(), hermetic_cfg=sb.empty_cfg)
            else:
                f = sb.path(f"c{k}.pas")
                open(f, "w").write(t)
                rc, out, err = cli.run(["--cursor", arg, "--mode=stdout", f], hermetic_cfg=sb.empty_cfg)
                out = out[len(f) + 2:-1] if out.startswith(f.encode()) else out
                os.unlink(f)
            res = []
            case = {"oracle": "c15cli", "text": t, "cursors": l, "transport": transport}
            lines = [x for x in err.decode("utf-8", "replace").splitlines() if x.startswith("CURSOR=")]
            if rc != 0 or out != plain:
                res.append(("cursors-change-output", f"exit {rc}; output differs from the run without --cursor"))
            elif len(lines) != 1 or lines[0] != "CURSOR=" + ref:
                res.append(("cli-cursor-line", f"stderr cursor lines {lines}, expected CURSOR={ref}"))
            return case, res

        with concurrent.futures.ThreadPoolExecutor(16) as ex:
            for case, res in ex.map(run, list(enumerate(jobs))):
                fam.case(nontrivial=True)
                fam.transitions += 1
                for sig, detail in res:
                    fam.fail("C15", sig, detail, case)
        # two files: cursors are dropped with a warning, output unchanged
        f1, f2 = sb.path("a.pas"), sb.path("b.pas")
        open(f1, "w").write("a  ;"); open(f2, "w").write("b  ;")
        rc, out, err = cli.run(["--cursor", "1,2", "--mode=stdout", f1, f2], hermetic_cfg=sb.empty_cfg)
        fam.case(nontrivial=True)
        if b"CURSOR=" in err or rc != 0:
            fam.fail("C15", "cli-cursor-line", f"two files: exit {rc}, stderr {err[:200]!r}", {"oracle": "c15cli", "two_files": True})
        fam.states = fam.len
        fam.samples = [{"text": jobs[1][0], "cursors": jobs[1][1], "transport": jobs[1][2]}]
    return [fam]
